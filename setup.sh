#!/bin/sh
# setup_cmd: build the harness (plain and -race) from files on disk only, warming the Go build cache.
set -e
cd "$(dirname "$0")"
exec ./check build
