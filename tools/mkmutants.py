#!/usr/bin/env python3
"""Writes /verif/selftest/mutants/<name>.diff: single-edit mutants of /repo (never touches /repo).
Each mutant: (name, file, [(old, new), ...], expected checks)."""
import difflib, json, os, sys
REPO = '/repo'
OUT = '/verif/selftest/mutants'
M = []
def m(name, file, edits, expect):
    M.append((name, file, edits if isinstance(edits, list) else [edits], expect))

# --- reverting the repairs made in this project ---
m('rev-xr-marshalsize', 'extended_report.go', ('return headerLength + wireSize(x)', 'return wireSize(x)'), 'C05')
m('rev-sr-ext-pad', 'sender_report.go', ('len(r.ProfileExtensions) + getPadding(len(r.ProfileExtensions))', 'len(r.ProfileExtensions)'), 'C05')
m('rev-twcc-chunk-at-end', 'transport_layer_cc.go', ('if packetStatusPos+packetStatusChunkLength > totalLength {', 'if packetStatusPos+packetStatusChunkLength >= totalLength {'), 'C02 C04 C13')
m('rev-twcc-counter-wrap', 'transport_layer_cc.go', ('processedPacketNum += localMin(t.PacketStatusCount-processedPacketNum, uint16(len(packetStatus.SymbolList)))', 'processedPacketNum += uint16(len(packetStatus.SymbolList))'), 'C02 C13')
m('rev-ccfb-uint16-length', 'rfc8888.go', ('length := 4 * (int(header.Length) + 1)', 'length := 4 * (header.Length + 1)'), 'C02 C09')
m('rev-sli-min-length', 'slice_loss_indication.go', ('if len(rawPacket) < (headerLength + sliOffset) {', 'if len(rawPacket) < (headerLength + ssrcLength) {'), 'C01 C07')
m('rev-fir-length-int', 'full_intra_request.go', ('if 4*int(h.Length)-firOffset <= 0 || (4*int(h.Length))%8 != 0 {', 'if 4*h.Length-firOffset <= 0 || (4*h.Length)%8 != 0 {'), 'C01')
m('rev-app-type-check', 'application_defined.go', ('	if header.Type != TypeApplicationDefined {\n		return errWrongType\n	}\n\n', ''), 'C07')
m('rev-totallost-24', 'reception_report.go', ('if r.TotalLost >= (1 << 24) {', 'if r.TotalLost >= (1 << 25) {'), 'C08')
m('rev-remb-255', 'receiver_estimated_maximum_bitrate.go', ('	if len(p.SSRCs) > math.MaxUint8 {\n		return 0, errTooManyReports\n	}\n', ''), 'C08')
m('rev-twcc-delta-error', 'transport_layer_cc.go', ('		if err != nil {\n			return nil, err\n		}\n		copy(payload[recvDeltaOffset+i:], b)', '		if err != nil {\n			continue\n		}\n		copy(payload[recvDeltaOffset+i:], b)'), 'C08')
m('rev-remb-string', 'receiver_estimated_maximum_bitrate.go', ('powers < len(bitUnits)-1 {', 'powers < len(bitUnits) {'), 'C17')
m('rev-unmarshal-ffff', 'packet.go', ('bytesprocessed = (int(h.Length) + 1) * 4', 'bytesprocessed = int(h.Length+1) * 4'), 'C06 C09')
m('rev-statusvector-reset', 'transport_layer_cc.go', ('	// do not append to the symbols of an earlier decode into the same chunk\n	r.SymbolList = nil\n', ''), 'C16')
m('rev-nack-reset', 'transport_layer_nack.go', ('	p.Nacks = nil\n', ''), 'C18')
m('rev-rr-reset', 'receiver_report.go', ('	// start afresh: r may hold the result of an earlier decode\n	r.Reports = nil\n', ''), 'C18 C01')
m('rev-twcc-reset', 'transport_layer_cc.go', ('	t.PacketChunks = nil\n	t.RecvDeltas = nil\n', ''), 'C18')
m('rev-bye-reason-reset', 'goodbye.go', ('	g.Reason = ""\n', ''), 'C18')
m('rev-ccfb-oversize-guard', 'rfc8888.go', ('	if b.MarshalSize() > 4*(math.MaxUint16+1) {\n		return nil, errTooManyReports\n	}\n', ''), 'C09')
# --- new single-edit defects ---
m('twcc-run-not-clipped', 'transport_layer_cc.go', ('packetNumberToProcess := localMin(t.PacketStatusCount-processedPacketNum, packetStatus.RunLength)', 'packetNumberToProcess := packetStatus.RunLength'), 'C13 C04')
m('twcc-large-delta-bound', 'transport_layer_cc.go', ('if recvDeltasPos+2 > totalLength {', 'if recvDeltasPos+1 > totalLength {'), 'C01 C13')
m('remb-mantissa-carry', 'receiver_estimated_maximum_bitrate.go', ('for bitrate >= (1 << 18) {', 'for bitrate > (1 << 18) {'), 'C14 C03 C02')
m('remb-no-saturation', 'receiver_estimated_maximum_bitrate.go', ('	if bitrate >= bitratemax {\n		bitrate = bitratemax\n	}\n', ''), 'C14')
m('nack-gap-17', 'transport_layer_nack.go', ('if m-nackPair.PacketID > 16 {', 'if m-nackPair.PacketID > 17 {'), 'C12')
m('nack-range-no-early-stop', 'transport_layer_nack.go', ('	more := f(n.PacketID)\n	if !more {\n		return\n	}\n', '	more := f(n.PacketID)\n	_ = more\n'), 'C12')
m('compound-accepts-sdes-without-cname', 'compound_packet.go', ('			if !hasCNAME {\n				return errMissingCNAME\n			}\n', '			_ = hasCNAME\n'), 'C11')
m('compound-destssrc-last', 'compound_packet.go', ('return c[0].DestinationSSRC()', 'return c[len(c)-1].DestinationSSRC()'), 'C11 C10')
m('compound-size-skips-raw', 'compound_packet.go', ('		l += p.MarshalSize()', '		if _, raw := p.(*RawPacket); !raw {\n			l += p.MarshalSize()\n		}'), 'C05 C11')
m('bye-reason-at-end', 'goodbye.go', ('if reasonEnd > len(rawPacket) {', 'if reasonEnd >= len(rawPacket) {'), 'C02 C04')
m('app-padding-unchecked', 'application_defined.go', ('		if paddingSize > len(rawPacket)-12 {\n			return errWrongPadding\n		}\n', ''), 'C01')
m('ccfb-end-at-65535-rejected', 'rfc8888.go', ('if int(b.BeginSequence)+int(numReportsField) > math.MaxUint16 {', 'if int(b.BeginSequence)+int(numReportsField) >= math.MaxUint16 {'), 'C02 C04')
m('ccfb-16384-rejected', 'rfc8888.go', ('if len(b.MetricBlocks) > maxMetricBlocks {', 'if len(b.MetricBlocks) >= maxMetricBlocks {'), 'C08')
m('xr-toh-shift', 'extended_report.go', [('TypeSpecificField((b.TTLorHopLimit & 0x03) << 3)', 'TypeSpecificField((b.TTLorHopLimit & 0x03) << 2)'), ('TTLorHopLimitType((b.XRHeader.TypeSpecific & 0x18) >> 3)', 'TTLorHopLimitType((b.XRHeader.TypeSpecific & 0x0C) >> 2)')], 'C03 C15 C04')
m('sr-destssrc-sender-first', 'sender_report.go', ('	for i, v := range r.Reports {\n		out[i] = v.SSRC\n	}\n	out[len(r.Reports)] = r.SSRC', '	out[0] = r.SSRC\n	for i, v := range r.Reports {\n		out[i+1] = v.SSRC\n	}'), 'C10')
m('header-count-32', 'header.go', ('if h.Count > 31 {', 'if h.Count > 32 {'), 'C08 C16')
m('delta-small-254', 'transport_layer_cc.go', ('delta >= 0 && delta <= math.MaxUint8 {', 'delta >= 0 && delta < math.MaxUint8 {'), 'C08 C16 C02')
m('delta-large-min', 'transport_layer_cc.go', ('delta >= math.MinInt16 && delta <= math.MaxInt16 {', 'delta > math.MinInt16 && delta <= math.MaxInt16 {'), 'C08 C16')
m('sli-picture-5bits', 'slice_loss_indication.go', ('(uint32(s.Picture) & 0x3F)', '(uint32(s.Picture) & 0x1F)'), 'C16 C02 C03')
m('sdes-count-inflation-accepted', 'source_description.go', ('if len(s.Chunks) != int(h.Count) {', 'if len(s.Chunks) > int(h.Count) {'), 'C04 C06')
m('pli-shared-scratch-buffer', 'picture_loss_indication.go', [('const (\n	pliLength = 2\n)', 'const (\n	pliLength = 2\n)\n\nvar pliScratch [12]byte'), ('	rawPacket := make([]byte, p.MarshalSize())\n	packetBody := rawPacket[headerLength:]\n\n	binary.BigEndian.PutUint32(packetBody, p.SenderSSRC)\n	binary.BigEndian.PutUint32(packetBody[4:], p.MediaSSRC)\n\n	h := Header{', '	rawPacket := pliScratch[:]\n	packetBody := rawPacket[headerLength:]\n\n	binary.BigEndian.PutUint32(packetBody, p.SenderSSRC)\n	binary.BigEndian.PutUint32(packetBody[4:], p.MediaSSRC)\n\n	h := Header{'), ('	copy(rawPacket, hData)\n\n	return rawPacket, nil\n}\n\n// Unmarshal decodes the PictureLossIndication', '	copy(rawPacket, hData)\n\n	return append([]byte(nil), rawPacket...), nil\n}\n\n// Unmarshal decodes the PictureLossIndication')], 'C18')
m('bye-unmarshal-normalises-input', 'goodbye.go', ('		g.Reason = string(rawPacket[reasonOffset+1 : reasonEnd])', '		g.Reason = string(rawPacket[reasonOffset+1 : reasonEnd])\n		for i := reasonEnd; i < len(rawPacket); i++ {\n			rawPacket[i] = 0 // normalise padding\n		}'), 'C18')
m('sdes-size-memo', 'source_description.go', [('type SourceDescription struct {\n	Chunks []SourceDescriptionChunk\n}', 'type SourceDescription struct {\n	Chunks []SourceDescriptionChunk\n	size   int\n}'), ('func (s *SourceDescription) MarshalSize() int {\n	chunksLength := 0', 'func (s *SourceDescription) MarshalSize() int {\n	if s.size != 0 {\n		return s.size\n	}\n	defer func() { s.size = s.MarshalSizeUncached() }()\n	return s.MarshalSizeUncached()\n}\n\n// MarshalSizeUncached computes the size\nfunc (s *SourceDescription) MarshalSizeUncached() int {\n	chunksLength := 0')], 'C18')
m('xr-dlrr-destssrc-drops-first', 'extended_report.go', ('	ssrc := make([]uint32, len(b.Reports))\n	for i, r := range b.Reports {\n		ssrc[i] = r.SSRC\n	}\n	return ssrc', '	ssrc := make([]uint32, 0, len(b.Reports))\n	for i, r := range b.Reports {\n		if i > 0 || len(b.Reports) == 1 {\n			ssrc = append(ssrc, r.SSRC)\n		}\n	}\n	return ssrc'), 'C10')
m('fir-destssrc-media', 'full_intra_request.go', ('	ssrcs := make([]uint32, 0, len(p.FIR))\n	for _, entry := range p.FIR {\n		ssrcs = append(ssrcs, entry.SSRC)\n	}\n	return ssrcs', '	ssrcs := make([]uint32, 0, len(p.FIR))\n	for range p.FIR {\n		ssrcs = append(ssrcs, p.MediaSSRC)\n	}\n	return ssrcs'), 'C10')
m('raw-dispatch-206-fmt3', 'packet.go', ('		case FormatFIR:\n			packet = new(FullIntraRequest)', '		case FormatFIR, 3:\n			packet = new(FullIntraRequest)'), 'C07')
m('sdes-chunk-pad-empty', 'source_description.go', ('	// align to 32-bit boundary\n	chunkLen += getPadding(chunkLen)\n\n	return chunkLen', '	// align to 32-bit boundary\n	if len(s.Items) > 0 {\n		chunkLen += getPadding(chunkLen)\n	}\n\n	return chunkLen'), 'C05 C02 C03')
m('xr-unknown-typespecific-cleared', 'extended_report.go', ('func (b *UnknownReportBlock) setupBlockHeader() {\n	b.XRHeader.BlockLength = uint16(wireSize(b)/4 - 1)', 'func (b *UnknownReportBlock) setupBlockHeader() {\n	b.XRHeader.TypeSpecific = 0\n	b.XRHeader.BlockLength = uint16(wireSize(b)/4 - 1)'), 'C15 C02 C09')
m('string-remb-negative-index', 'receiver_estimated_maximum_bitrate.go', ('	unit := bitUnits[powers]', '	if bitrate < 1 && p.Bitrate > 0 {\n		powers--\n	}\n	unit := bitUnits[powers]'), 'C17')
m('twcc-chunk-error-ignored', 'transport_layer_cc.go', ('		b, err := chunk.Marshal()\n		if err != nil {\n			return nil, err\n		}\n		copy(payload[packetChunkOffset+i*2:], b)', '		b, _ := chunk.Marshal()\n		copy(payload[packetChunkOffset+i*2:], b)'), 'C08')
m('vector-extra-symbols-dropped', 'transport_layer_cc.go', ('	for i, s := range r.SymbolList {\n		index := numOfBits*uint16(i) + 2\n', '	for i, s := range r.SymbolList {\n		index := numOfBits*uint16(i) + 2\n		if index+numOfBits > 16 {\n			break\n		}\n'), 'C08')
m('twcc-reftime-23bits', 'transport_layer_cc.go', ('ReferenceTimeAndFbPktCount := appendNBitsToUint32(0, 24, t.ReferenceTime)', 'ReferenceTimeAndFbPktCount := appendNBitsToUint32(0, 24, t.ReferenceTime&0x7FFFFF)'), 'C02 C03')

m('hang-bye-count30-len8', 'goodbye.go', ('	if getPadding(len(rawPacket)) != 0 {\n		return errPacketTooShort\n	}\n', '	if getPadding(len(rawPacket)) != 0 {\n		return errPacketTooShort\n	}\n	for spin := 0; header.Count == 30 && len(rawPacket) == 8; spin++ {\n		_ = spin // never terminates for this one shape\n	}\n'), 'C01')
m('alloc-sdes-quadratic', 'source_description.go', ('		s.Chunks = append(s.Chunks, chunk)\n', '		s.Chunks = append(append(make([]SourceDescriptionChunk, 0, len(s.Chunks)*64+1), s.Chunks...), chunk)\n'), 'C01')
os.makedirs(OUT, exist_ok=True)
index = []
for name, file, edits, expect in M:
    src = open(os.path.join(REPO, file)).read()
    new = src
    ok = True
    for old, rep in edits:
        if new.count(old) < 1:
            print('MISSING', name, repr(old[:60]))
            ok = False
            break
        new = new.replace(old, rep, 1)
    if not ok:
        continue
    d = difflib.unified_diff(src.splitlines(True), new.splitlines(True), 'a/' + file, 'b/' + file)
    open(os.path.join(OUT, name + '.diff'), 'w').write(''.join(d))
    index.append({'name': name, 'file': file, 'expect': expect.split()})
json.dump(index, open(os.path.join(OUT, 'INDEX.json'), 'w'), indent=1)
print(len(index), 'mutants written')
