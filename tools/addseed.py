#!/usr/bin/env python3
"""tools/addseed.py <id> <summary> <needs>: verify the claims of the sub-agent that worked in /tmp/seed/<id>
(tools/verifyseed.sh), and only if they hold keep the change as seeded/<id>/ with a meta.json, then remove the worktree."""
import json, subprocess, sys
id, summary, needs = sys.argv[1:4]
prop = id[:3]
out = subprocess.run(['sh', '/verif/tools/verifyseed.sh', id], capture_output=True, text=True).stdout.strip()
print(out)
if 'suite-with-change=ok demo-with-change=FAIL demo-on-original=ok' not in out:
    print('NOT KEPT: claims not confirmed'); sys.exit(1)
subprocess.run(['sh', '/verif/tools/keepseed.sh', id], check=True)
json.dump({"property": prop, "summary": summary, "needs": needs, "id": id,
           "agent_verified": "suite green with the change; demo fails with it and passes on the original code (re-run by me in the agent worktree with tools/verifyseed.sh)",
           "what_i_ran": "sh tools/verifyseed.sh %s  (%s)" % (id, out.split(': ', 1)[-1]),
           "checks_expected": [prop]}, open('/verif/seeded/%s/meta.json' % id, 'w'), indent=1)
subprocess.run(['git', '-C', '/repo', 'worktree', 'remove', '--force', '/tmp/seed/' + id])
