#!/bin/sh
# tools/seedrun.sh <patch.diff> <Cxx|all> [more ids...]
# Applies a patch to /repo, runs the named quick checks, restores /repo. Prints one line per check.
set -u
PATCH="$1"; shift
cd /verif || exit 2
if [ -n "$(git -C /repo status --porcelain -- '*.go')" ]; then echo "seedrun: /repo has uncommitted changes, refusing"; exit 2; fi
restore() { git -C /repo checkout -- . ; }
trap restore EXIT INT TERM
git -C /repo apply "$PATCH" || { echo "seedrun: patch does not apply"; exit 2; }
IDS="$*"
[ "$IDS" = "all" ] && IDS="C01 C02 C03 C04 C05 C06 C07 C08 C09 C10 C11 C12 C13 C14 C15 C16 C17 C18"
if [ "${SEEDRUN_SUITE:-1}" = "1" ]; then
	( cd /repo && GOFLAGS=-mod=mod GOPROXY=off GOSUMDB=off go test -vet=off -count=1 ./... >/tmp/seedrun_suite.txt 2>&1 ) && echo "suite: pass" || echo "suite: FAIL"
fi
CAUGHT=""
for id in $IDS; do
	OUT=/tmp/seedrun_$id.txt
	./check $id ${SEEDRUN_TIER:-quick} >$OUT 2>&1
	rc=$?
	asp=$(grep -m3 '^  aspect=' $OUT | sed 's/ section=.*//' | tr '\n' ' ')
	echo "$id exit=$rc $(tail -1 $OUT | cut -c1-110) $asp"
	[ $rc -eq 1 ] && CAUGHT="$CAUGHT $id"
done
echo "caught-by:$CAUGHT"
