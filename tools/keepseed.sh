#!/bin/sh
# tools/keepseed.sh <id> : after the change in /tmp/seed/<id> has been verified (suite green with it,
# demo fails with it and passes without), copy its patch, demonstration and notes to /verif/seeded/<id>/.
set -eu
id="$1"
src=/tmp/seed/$id/_seed
dst=/verif/seeded/$id
mkdir -p "$dst"
cp "$src/patch.diff" "$dst/patch.diff"
cp "$src/demo_test.go" "$dst/demo_test.go"
cp "$src/notes.md" "$dst/notes.md"
echo "kept $id"
