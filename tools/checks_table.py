add("C02", "runtime round-trip monitor (Marshal -> own/datagram/list decoders -> structural comparison modulo reference-computed quantisations) over seeded boundary-biased values",
    "Exploration: every generated well-formed value of all 16 packet types and every generated list is marshalled, decoded through the type's own decoder, rtcp.Unmarshal and the list path, compared structurally and re-marshalled; millions of distinct values per run. Right level because the property quantifies over an unbounded value domain: monitoring samples it densely at boundaries but cannot enumerate it.",
    "Misses values outside the generator's size caps; D is part of the trusted base.", "5/C02")
add("C05", "runtime framing-invariant monitor on Marshal output (size vs MarshalSize, alignment, header word, Header()/Len() accessors, compound sum)",
    "Exploration: framing invariants are asserted on the octets the real Marshal produces for millions of generated values including every residue mod 4 of every variable-length part.",
    "Judged only when Marshal returns nil and the encoding fits 262144 octets.", "5/C05")
