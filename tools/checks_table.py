# id -> technique, level text, level note, design ref  (exec'd by mkmanifest.py)
add("C01", "runtime panic / allocation / CPU-time monitors on every decode entry point over systematic, mutated and hostile byte strings; worker-process isolation; checkptr through the -race build",
    "Exploration: 24 decode entry points are driven with a systematic grid (every input length 0..64 x count x length-field boundary set x body pattern), mutants of reference encodings of every type fed to every decoder, and hostile shapes (count-driven allocation, 64 KiB many-frame datagrams, 256 KiB inputs); a guard observes panics, a meter the bytes allocated per call, a watchdog the CPU time of the case in flight. The quantifier is all byte strings, which only sampling can approach.",
    "Allocation bound 8 MiB + 128 x len(input) and the 20 CPU-second hang threshold are calibrated constants.", "5/C01")
add("C02", "runtime round-trip monitor (Marshal -> own/datagram/list decoders -> structural comparison modulo reference-computed quantisations) over seeded boundary-biased values",
    "Exploration: every generated well-formed value of all 16 packet types and every generated list is marshalled, decoded through the type's own decoder, rtcp.Unmarshal and the list path, compared structurally and re-marshalled; about a million distinct values per quick run. Unbounded value domain: sampled densely at boundaries, never enumerated.",
    "Misses values outside the generator's size caps; D is part of the trusted base.", "5/C02")
add("C03", "runtime comparison of Marshal output with an independent RFC reference encoder under a don't-care mask, judged per field",
    "Exploration: the octets the real Marshal emits are compared with an encoder written independently from the RFC texts, for the C02 value stream plus per-field walking values; the reference is cross-checked at start-up against byte vectors from Chrome/libwebrtc.",
    "A misreading of an RFC shared by the library and the reference is invisible.", "5/C03")
add("C04", "runtime comparison of decoded fields with the model value for reference-made variant encodings; rejection monitor for count-inflated SR/RR/SDES/BYE",
    "Exploration: RFC-permitted encodings the library never emits (alternative TWCC chunkings, unnormalised REMB pairs, padded APP, reserved bits, unknown XR blocks, stray CCFB bits, BYE forms) are produced by the reference encoder and decoded by the real decoders; every (count, inflated count) pair of SR/RR/SDES/BYE must be rejected.",
    "Variants are exactly those the statement lists.", "5/C04")
add("C05", "runtime framing-invariant monitor on Marshal output (size vs MarshalSize, alignment, header word, Header()/Len() accessors, compound sum)",
    "Exploration: framing invariants are asserted on the octets the real Marshal produces for generated values including every residue mod 4 of every variable-length part.",
    "Judged only when Marshal returns nil and the encoding fits 262144 octets.", "5/C05")
add("C06", "runtime conservation / locality checker over generated frame traces (exactly-once, concatenation, context-freedom, all-or-nothing) of rtcp.Unmarshal",
    "Exploration: the generator logs the frame sequence it emits; the checker compares what rtcp.Unmarshal returns with per-frame decodes, at every split point, with malformed frames inserted at every position, tails cut inside frames, surplus octets, maximum-length frames and the empty datagram.",
    "A malformed frame is self-delimiting and rejected alone; boundary cuts are concatenation cases.", "5/C06")
add("C07", "runtime dispatch-table oracle over all 256x32x2 header combinations, foreign-type rejection matrix over all ordered type pairs, self-dispatch of Marshal output; cold-start child processes whose first decodes are made by many goroutines at once, with and without the Go race detector",
    "Exploration with an exhaustive header space: every (PT, count/FMT, P) combination is dispatched with several bodies; every ordered (decoder, foreign class) pair is exercised with generated well-formed foreign packets; child processes make their very first decodes from 2..32 goroutines at once (a dispatch table built lazily on first use is otherwise never observed half-built) and are compared with a sequential child.",
    "Bodies are sampled; for registered combinations with the padding bit only the type of an accepted result is judged.", "5/C07")
add("C08", "runtime limit-table monitor: every wire limit probed at limit-1, limit, limit+1 and far beyond in random surroundings; accepted output compared with the reference encoding",
    "Exploration over a complete table of the limits the statement names: over-limit values must yield an error and no octets, at/under-limit values must be accepted and their octets must equal the independent reference encoding (which is what exposes wrap-arounds that keep err == nil).",
    "Limits the statement does not name are not claimed.", "5/C08")
add("C09", "runtime decode -> encode -> decode -> encode fixpoint monitor on manufactured accepted datagrams",
    "Exploration: accepted inputs are manufactured (reference encodings of both dialects, own output, all REMB wire values, TWCC mutants, acceptance-preserving mutations, size-limit shapes) and each is taken through decode, Marshal, decode, Marshal; no panic, re-acceptance, structural equality and byte fixpoint are judged.",
    "TWCC frames are judged only under the statement's header-consistency precondition.", "5/C09")
add("C10", "runtime comparison of DestinationSSRC() with a reference list derived from the model value, in memory and after a round trip",
    "Exploration: every SSRC slot of generated values carries a distinct tagged value, so dropped, duplicated or reordered elements are identifiable; judged on the constructed value, the own decoder's result and the datagram decoder's result.",
    "Expected lists follow the statement's wording.", "5/C10")
add("C11", "runtime comparison of Validate/Marshal/Unmarshal/CNAME/DestinationSSRC/MarshalSize with an independent acceptor of the RFC 3550 compound grammar, exhaustive over member-kind sequences",
    "Exploration with exhaustive structure: all sequences over 12 member kinds up to length 4 (quick) / 6 (thorough) with freshly generated member contents, plus random sequences up to length 40.",
    "Member contents are sampled; the kind alphabet is my partition of the packet space.", "5/C11")
add("C12", "runtime set-cover / order / early-stop oracles on the NACK pair helpers with exhaustive enumeration of (PacketID, bitmap) pairs; cold-start child processes whose first calls are made by many goroutines at once, with and without the Go race detector",
    "Exploration with exhaustive sub-domains: all 2^16 bitmaps x 40 ids (quick) / all 2^32 pairs (thorough), all 18 early-stop positions x all bitmaps, all short lists over a wrap-straddling window, random long lists; child processes whose first PacketList/Range/NackPairsFromSequenceNumbers calls come from 2..32 goroutines at once, compared with a sequential child.",
    "Arbitrary-length input lists are sampled.", "5/C12")
add("C13", "runtime comparison of every accepted TWCC decode with an independent expansion of the raw octets; chunking invariance over reference encodings of random valid chunkings",
    "Exploration: an independent walker expands chunk words and delta octets from the raw bytes; chunk list, delta count/size class/value and bounds of every accepted decode must agree; K chunkings of the same status sequence must decode to the same statuses and deltas.",
    "Reading of the statement for vector chunks that overshoot the count is stated in DESIGN.md.", "5/C13")
add("C14", "runtime comparison of REMB decode/encode with an exact integer reference; exhaustive enumeration of the 2^24 wire pairs (thorough: all 2^31 non-negative float32) with a monotonicity monitor",
    "Exploration with exhaustive sub-domains: all 64 x 2^18 wire pairs are decoded (both tiers); encodings are compared with the integer reference on dense neighbourhoods of every boundary (quick) / on every non-negative finite float32 (thorough), with floor, shortfall, saturation and monotonicity judged from the library's own octets.",
    "The fast integer reference is cross-checked against a math/big reference at start-up.", "5/C14")
add("C15", "runtime check of ExtendedReport.Marshal output with an independent block walker; decode order/type/value, neighbour independence, verbatim survival of unknown blocks",
    "Exploration: every order of the 8 block kinds for k <= 3 with fresh field values, random sequences to k = 8, all T values and flag combinations, every unknown block type arriving from the wire.",
    "Field values and list lengths are sampled.", "5/C15")
add("C16", "exhaustive run-time enumeration of each fixed-width wire unit through the public API in both directions",
    "Exploration with exhaustive domains: chunk words, deltas, 24-bit loss counts, CCFB metric blocks, XR chunk accessors completely in both tiers; header words, NACK pairs and SLI words completely in the thorough tier (sampled in quick); FIR's 2^40 domain stratified.",
    "FIR entries and (in quick) 32-bit units are sampled.", "5/C16")
add("C17", "runtime panic monitor on String()/fmt formatting, including a scan of fmt output for recovered String panics",
    "Exploration: every packet decoded from the manufactured accepted corpus, generated values of all types, compound packets mixing all types, all 2^24 REMB wire pairs, all values of the enum-like types and all 2^16 XR chunks are formatted by String() and by fmt with %v/%+v/%s on pointer and value forms.",
    "Datagram sizes are capped because several String methods are quadratic.", "5/C17")
add("C18", "purity snapshots and random call histories against per-(packet, operation) baselines; Go race detector over shared-object workloads with an unsynchronised monitor; cold-start child processes (first calls into the package made concurrently); fresh-process baselines",
    "Exploration of schedules and histories: sequential purity and history monitors, then 16 (goroutines, GOMAXPROCS) configurations of mixed read-only operations on shared packets, decodes of shared buffers and arbitrary operations on private clones under the race detector; the evidence states how many operation pairs on the same shared object actually overlapped in time.",
    "Interleavings are sampled; the race detector sees only executed accesses.", "5/C18")
