#!/bin/sh
# tools/verifyseed.sh <id>: re-run the agent's claims in /tmp/seed/<id>: suite green with the change, demo fails with it, passes without.
export GOFLAGS=-mod=mod GOPROXY=off GOSUMDB=off GOTOOLCHAIN=local
id=$1; wt=/tmp/seed/$id; cd $wt || exit 2
rm -f zz_seed_demo_test.go
git checkout -q -- . ; git apply _seed/patch.diff || { echo "$id: patch does not apply"; exit 2; }
S=$(go build ./... && go test -vet=off -count=1 ./... 2>&1 | tail -1 | cut -c1-2)
cp _seed/demo_test.go ./zz_seed_demo_test.go
W=$(go test -vet=off -count=1 -run TestSeedDemo ./... 2>&1 | tail -1 | cut -c1-4)
git apply -R _seed/patch.diff
O=$(go test -vet=off -count=1 -run TestSeedDemo ./... 2>&1 | tail -1 | cut -c1-2)
rm -f zz_seed_demo_test.go; git apply _seed/patch.diff
echo "$id: suite-with-change=$S demo-with-change=$W demo-on-original=$O patch-lines=$(wc -l < _seed/patch.diff)"
