#!/usr/bin/env python3
"""Writes /verif/selftest/benign/<name>.diff: changes to /repo under which every property still
holds (behaviour changes that no property forbids, and repairs of the open findings). The
self-test driver applies each to a scratch copy and expects ALL 18 checks to exit 0: an alarm on
one of these is a false alarm of the machinery. Never touches /repo.
Each entry: (name, [(file, old, new), ...], why the properties still hold)."""
import difflib, json, os
REPO = '/repo'
OUT = '/verif/selftest/benign'
B = []
def b(name, edits, why):
    B.append((name, edits, why))

b('errors-wrapped', [
    ('transport_layer_nack.go', '	if 4*h.Length <= nackOffset {\n		return errBadLength\n	}', '	if 4*h.Length <= nackOffset {\n		return fmt.Errorf("%w: no FCI in %d words", errBadLength, h.Length)\n	}'),
    ('goodbye.go', '	if getPadding(len(rawPacket)) != 0 {\n		return errPacketTooShort\n	}', '	if getPadding(len(rawPacket)) != 0 {\n		return errBadLength\n	}'),
], 'no property names an error value; only error/no error and the absence of output matter')

b('marshal-extra-capacity', [
    ('sender_report.go', '	rawPacket := make([]byte, r.MarshalSize())', '	rawPacket := make([]byte, r.MarshalSize(), r.MarshalSize()+32)'),
    ('receiver_report.go', '	rawPacket := make([]byte, r.MarshalSize())', '	rawPacket := make([]byte, r.MarshalSize(), r.MarshalSize()+32)'),
    ('goodbye.go', '	rawPacket := make([]byte, g.MarshalSize())', '	rawPacket := make([]byte, g.MarshalSize(), g.MarshalSize()+8)'),
], 'the capacity of a returned buffer is not constrained by any property (len == MarshalSize still holds)')

b('string-format-changed', [
    ('sender_report.go', '	out := fmt.Sprintf("SenderReport from %x\\n", r.SSRC)', '	out := fmt.Sprintf("SR ssrc=%#08x\\n", r.SSRC)'),
    ('sender_report.go', '	out += "\\tSSRC    \\tLost\\tLastSequence\\n"', '	out += "\\tsource / lost / last sequence\\n"'),
    ('slice_loss_indication.go', '	return fmt.Sprintf("SliceLossIndication %x %x %+v", p.SenderSSRC, p.MediaSSRC, p.SLI)', '	return fmt.Sprintf("SLI sender=%d media=%d entries=%d %v", p.SenderSSRC, p.MediaSSRC, len(p.SLI), p.SLI)'),
], 'C17 demands totality of String, not a format')

b('decoders-copy-input', [
    ('raw_packet.go', '	*r = b\n', '	*r = append(RawPacket(nil), b...)\n'),
    ('sender_report.go', '		r.ProfileExtensions = packetBody[offset:]', '		r.ProfileExtensions = append([]byte(nil), packetBody[offset:]...)'),
], 'decoded values may or may not alias the input; no property demands aliasing')

b('remb-destination-copy', [
    ('receiver_estimated_maximum_bitrate.go', 'func (p *ReceiverEstimatedMaximumBitrate) DestinationSSRC() []uint32 {\n	return p.SSRCs\n}', 'func (p *ReceiverEstimatedMaximumBitrate) DestinationSSRC() []uint32 {\n	return append([]uint32(nil), p.SSRCs...)\n}'),
], 'C10 constrains the elements of the result, not its identity')

b('lists-preallocated-from-length', [
    ('transport_layer_nack.go', '	p.Nacks = nil\n', '	p.Nacks = make([]NackPair, 0, (len(rawPacket)-headerLength-nackOffset)/4)\n'),
    ('full_intra_request.go', '	p.FIR = nil\n', '	p.FIR = make([]FIREntry, 0, (len(rawPacket)-headerLength-firOffset)/8)\n'),
], 'allocation stays a small multiple of the input size; an empty non-nil list equals a nil list for every property')

b('nack-range-trailing-zeros', [
    ('transport_layer_nack.go', '	for i := uint16(0); b != 0; i++ {\n		if (b & (1 << i)) != 0 {\n			b &^= (1 << i)\n			more = f(n.PacketID + i + 1)\n			if !more {\n				return\n			}\n		}\n	}',
     '	for b != 0 {\n		i := uint16(0)\n		for b&(1<<i) == 0 {\n			i++\n		}\n		b &^= 1 << i\n		if more = f(n.PacketID + i + 1); !more {\n			return\n		}\n	}'),
], 'same sequence of callbacks')

b('kf1-fixed-sli-pt-206', [
    ('slice_loss_indication.go', '	if h.Type != TypeTransportSpecificFeedback || h.Count != FormatSLI {', '	if h.Type != TypePayloadSpecificFeedback || h.Count != FormatSLI {'),
    ('slice_loss_indication.go', '		Count:  FormatSLI,\n		Type:   TypeTransportSpecificFeedback,', '		Count:  FormatSLI,\n		Type:   TypePayloadSpecificFeedback,'),
], 'repairs open finding KF1 (RFC 4585: SLI is PT 206 / FMT 2)')

b('kf2-fixed-ccfb-num-reports', [
    ('rfc8888.go', '	length := uint16(len(b.MetricBlocks))\n	if length > 0 {\n		length--\n	}\n', '	length := uint16(len(b.MetricBlocks))\n'),
    ('rfc8888.go', '	if int(b.BeginSequence)+int(numReportsField) > math.MaxUint16 {\n		return errIncorrectNumReports\n	}\n\n	endSequence := b.BeginSequence + numReportsField\n	numReports := int(endSequence - b.BeginSequence + 1)\n', '	numReports := int(numReportsField)\n'),
], 'repairs open finding KF2 (RFC 8888: num_reports is the number of metric blocks)')

b('kf3-fixed-remb-mantissa-0', [
    ('receiver_estimated_maximum_bitrate.go', '	p.Bitrate = math.Float32frombits((uint32(exp) << 23) | (mantissa & mantissamax))\n', '	p.Bitrate = math.Float32frombits((uint32(exp) << 23) | (mantissa & mantissamax))\n	if mantissa == 0 {\n		p.Bitrate = 0\n	}\n'),
], 'repairs open finding KF3 (mantissa 0 means bitrate 0)')

b('kf4-fixed-ccfb-checks-fmt', [
    ('rfc8888.go', '	if h.Type != TypeTransportSpecificFeedback {\n		return errWrongType\n	}\n\n	b.SenderSSRC', '	if h.Type != TypeTransportSpecificFeedback || h.Count != FormatCCFB {\n		return errWrongType\n	}\n\n	b.SenderSSRC'),
], 'repairs open finding KF4 (CCFeedbackReport.Unmarshal accepted any FMT under PT 205)')

b('nackpairs-sorted-first', [
    ('transport_layer_nack.go', '	"math"\n)', '	"math"\n	"sort"\n)'),
    ('transport_layer_nack.go', '	nackPair := &NackPair{PacketID: sequenceNumbers[0]}\n	for i := 1; i < len(sequenceNumbers); i++ {\n		m := sequenceNumbers[i]\n',
     '	sorted := append([]uint16(nil), sequenceNumbers...)\n	sort.Slice(sorted, func(i, j int) bool { return sorted[i] < sorted[j] })\n	nackPair := &NackPair{PacketID: sorted[0]}\n	for i := 1; i < len(sorted); i++ {\n		m := sorted[i]\n'),
], 'C12 demands that the pairs cover exactly the requested set, not a particular partition into pairs')

b('decoders-preallocate-bounded', [
    ('source_description.go', '	for i := headerLength; i < len(rawPacket); {\n		var chunk SourceDescriptionChunk', '	s.Chunks = make([]SourceDescriptionChunk, 0, int(h.Count))\n	for i := headerLength; i < len(rawPacket); {\n		var chunk SourceDescriptionChunk'),
    ('packet.go', '	var packets []Packet\n	for len(rawData) != 0 {', '	packets := make([]Packet, 0, 4)\n	for len(rawData) != 0 {'),
], 'at most 31 chunk slots / 4 packet slots up front: allocation stays bounded by a small constant plus a multiple of the input')

b('marshal-list-pooled-scratch', [
    ('packet.go', 'package rtcp\n', 'package rtcp\n\nimport "sync"\n\nvar listScratch = sync.Pool{New: func() interface{} { b := make([]byte, 0, 1500); return &b }}\n'),
    ('packet.go', '	out := make([]byte, 0)\n	for _, p := range packets {\n		data, err := p.Marshal()\n		if err != nil {\n			return nil, err\n		}\n		out = append(out, data...)\n	}\n	return out, nil',
     '	sp := listScratch.Get().(*[]byte)\n	scratch := (*sp)[:0]\n	defer func() { *sp = scratch[:0]; listScratch.Put(sp) }()\n	for _, p := range packets {\n		data, err := p.Marshal()\n		if err != nil {\n			return nil, err\n		}\n		scratch = append(scratch, data...)\n	}\n	return append(make([]byte, 0, len(scratch)), scratch...), nil'),
], 'a correctly used pool: the scratch buffer is private between Get and Put and the result is a fresh copy')

os.makedirs(OUT, exist_ok=True)
index = []
for name, edits, why in B:
    files = {}
    ok = True
    for file, old, new in edits:
        src = files.get(file)
        if src is None:
            src = open(os.path.join(REPO, file)).read()
        if src.count(old) < 1:
            print('MISSING', name, file, repr(old[:70]))
            ok = False
            break
        files[file] = src.replace(old, new, 1)
    if not ok:
        continue
    diff = ''
    for file, new in files.items():
        src = open(os.path.join(REPO, file)).read()
        diff += ''.join(difflib.unified_diff(src.splitlines(True), new.splitlines(True), 'a/' + file, 'b/' + file))
    open(os.path.join(OUT, name + '.diff'), 'w').write(diff)
    index.append({'name': name, 'files': sorted(files), 'why': why})
json.dump(index, open(os.path.join(OUT, 'INDEX.json'), 'w'), indent=1)
print(len(index), 'benign changes written')
