#!/usr/bin/env python3
"""Regenerates /verif/MANIFEST.json from the table below (run with python3; validate with python3-vt tools/validate.py)."""
import json, os
ROOT = os.path.dirname(os.path.dirname(os.path.abspath(__file__)))
props = [json.loads(l) for l in open(os.path.join(ROOT, 'properties.jsonl'))]
NOTE_COMMON = ("Trusted base: the Go toolchain (go1.23.5, the one the repository's suite uses), the independent reference model "
               "and the well-formed domain D of DESIGN.md section 3 (my reading of the RFCs), the PRNG-determined case lists. "
               "Verdict covers the executions driven, nothing else.")
# id -> (technique, level text, level note, design ref)
CHECKS = {}
def add(pid, technique, text, note, ref):
    CHECKS[pid] = dict(technique=technique, text=text, note=note, ref=ref)

exec(open(os.path.join(ROOT, 'tools', 'checks_table.py')).read())

checks = []
na = []
for p in props:
    pid = p['id']
    if pid in CHECKS:
        c = CHECKS[pid]
        checks.append({
            "property_id": pid,
            "quick_cmd": f"./check {pid} quick",
            "thorough_cmd": f"./check {pid} thorough",
            "evidence_file": f"/verif/evidence/{pid}.json",
            "replay_cmd_template": "./check replay {path}",
            "engine": "vcheck",
            "level_claimed": {"category": "exploration", "text": c['text'], "design_ref": c['ref']},
            "level_note": c['note'] + " " + NOTE_COMMON,
            "technique": c['technique'],
        })
    else:
        na.append({"property_id": pid, "reason": "check not built yet (work in progress; see DESIGN.md section 5)"})
m = {
    "version": 1,
    "setup_cmd": "./setup.sh",
    "hooks": {
        "guard": "verif",
        "enable": "no hooks are needed: every observation point is the public API; checks compile /repo's working tree through `replace github.com/pion/rtcp => /repo` in harness/go.mod (plain and -race builds)",
        "baseline_off_cmd": "cd /repo && go test -vet=off -count=1 ./...",
        "source_commits": [],
        "add_only": True,
    },
    "engines": [{"name": "vcheck", "path": "/verif/harness", "serves_properties": sorted(CHECKS),
                 "kind_free_text": "Go runtime-monitoring harness: seeded generators + independent reference model + oracles observing the real package built from /repo; sharded worker processes with watchdog; race detector build for C01/C18"}],
    "checks": checks,
    "not_applicable": na,
    "notes": "Runtime monitoring only (see DESIGN.md). Exit 0 held / 1 VIOLATION / 2 harness error or inconclusive. Known findings: KNOWN_FINDINGS.txt.",
}
json.dump(m, open(os.path.join(ROOT, 'MANIFEST.json'), 'w'), indent=1)
print("checks:", len(checks), "not_applicable:", len(na))
