#!/usr/bin/env python3
"""python3-vt tools/validate.py : validates MANIFEST.json and every evidence file against the schemas."""
import json, sys, glob, jsonschema
ok = True
m = json.load(open('/verif/MANIFEST.json'))
jsonschema.validate(m, json.load(open('/root/.vp/MANIFEST.schema.json')))
es = json.load(open('/root/.vp/EVIDENCE.schema.json'))
for c in m['checks']:
    f = c['evidence_file']
    try:
        jsonschema.validate(json.load(open(f)), es)
    except Exception as e:
        ok = False
        print("BAD", f, str(e)[:300])
print("manifest ok; evidence", "ok" if ok else "BAD")
sys.exit(0 if ok else 1)
