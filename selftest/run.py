#!/usr/bin/env python3
"""Self-test driver (not a registered check): validates the monitors against mutants of pion/rtcp.

  python3 selftest/run.py [--all-checks] [--tier quick] [name-substring ...]

For every mutant in selftest/mutants/INDEX.json (and every kept seeded change in seeded/*/):
  1. copy /repo's working tree to a scratch directory outside /repo and /verif, apply the patch;
  2. run the library's own suite there: a mutant the suite already catches is not 'realistic' and is skipped;
  3. run the quick checks it is expected to break (or all 18 with --all-checks) against the copy
     (VERIF_REPO=<copy>, VERIF_OUT=<scratch>), record which exit 1;
  4. delete the copy and its build output.
Writes selftest/results.json and prints a matrix. Never touches /repo."""
import json, os, shutil, subprocess, sys, time, glob

ROOT = '/verif'
SCRATCH = '/tmp/verif-selftest'
ENV = dict(os.environ, GOFLAGS='-mod=mod', GOPROXY='off', GOSUMDB='off', GOTOOLCHAIN='local')
ALL = ['C%02d' % i for i in range(1, 19)]

def sh(cmd, cwd=None, env=None, timeout=3600):
    p = subprocess.run(cmd, shell=True, cwd=cwd, env=env or ENV, stdout=subprocess.PIPE, stderr=subprocess.STDOUT, text=True, errors="replace", timeout=timeout)
    return p.returncode, p.stdout

def main():
    args = sys.argv[1:]
    all_checks = '--all-checks' in args
    tier = 'quick'
    if '--tier' in args:
        tier = args[args.index('--tier') + 1]
    filt = [a for a in args if not a.startswith('-') and a != tier and not a.isdigit()]
    muts = []
    for m in json.load(open(os.path.join(ROOT, 'selftest/mutants/INDEX.json'))):
        muts.append(dict(name=m['name'], patch=os.path.join(ROOT, 'selftest/mutants', m['name'] + '.diff'), expect=m['expect'], kind='selftest'))
    for d in sorted(glob.glob(os.path.join(ROOT, 'seeded/*/meta.json'))):
        meta = json.load(open(d))
        muts.append(dict(name='seeded-' + os.path.basename(os.path.dirname(d)), patch=os.path.join(os.path.dirname(d), 'patch.diff'), expect=meta.get('checks_expected', [meta['property']]), kind='seeded'))
    benign = '--benign' in args
    if benign:
        # property-preserving changes: every check must stay silent (exit 0) on each of them
        muts = []
        all_checks = True
        for m in json.load(open(os.path.join(ROOT, 'selftest/benign/INDEX.json'))):
            muts.append(dict(name='benign-' + m['name'], patch=os.path.join(ROOT, 'selftest/benign', m['name'] + '.diff'), expect=[], kind='benign'))
    if filt:
        muts = [m for m in muts if any(f in m['name'] for f in filt)]
    results = []
    resfile = os.path.join(ROOT, 'selftest/benign-results.json' if '--benign' in args else 'selftest/results.json')
    old = {}
    if os.path.exists(resfile) and filt:
        old = {r['name']: r for r in json.load(open(resfile))}
    jobs = 1
    if '-j' in args:
        jobs = int(args[args.index('-j') + 1])
    import threading
    from concurrent.futures import ThreadPoolExecutor
    lock = threading.Lock()

    def one(m):
        t0 = time.time()
        copy = os.path.join(SCRATCH, m['name'], 'rtcp')
        out = os.path.join(SCRATCH, m['name'], 'out')
        shutil.rmtree(os.path.join(SCRATCH, m['name']), ignore_errors=True)
        os.makedirs(out)
        sh('rsync -a --exclude .git /repo/ %s/' % copy)
        rc, o = sh('patch -p1 -s < %s' % m['patch'], cwd=copy)
        r = dict(name=m['name'], kind=m['kind'], expect=m['expect'])
        if rc != 0:
            r['status'] = 'patch-failed'
            print(m['name'], 'PATCH FAILED', o[:200])
        else:
            rc, o = sh('go build ./... && go test -vet=off -count=1 ./...', cwd=copy)
            if rc != 0 and m['kind'] != 'benign':
                r['status'] = 'suite-catches-it'
            else:
                r['status'] = 'realistic'
                env = dict(ENV, VERIF_REPO=copy, VERIF_OUT=out)
                r['checks'] = {}
                for cid in (ALL if all_checks else m['expect']):
                    rc, o = sh('./check %s %s' % (cid, tier), cwd=ROOT, env=env)
                    aspects = [l.strip().split(' section=')[0] for l in o.splitlines() if l.startswith('  aspect=')][:3]
                    r['checks'][cid] = dict(exit=rc, aspects=aspects, summary=o.strip().splitlines()[-1][:160] if o.strip() else '')
                r['caught_by'] = [c for c, v in r['checks'].items() if v['exit'] == 1]
                r['errors'] = [c for c, v in r['checks'].items() if v['exit'] not in (0, 1)]
        r['seconds'] = round(time.time() - t0, 1)
        shutil.rmtree(os.path.join(SCRATCH, m['name']), ignore_errors=True)
        # remove the alternate build directories of this copy (named after a checksum of its path, as ./check does)
        tag = subprocess.run("printf '%s' " + copy + " | cksum | cut -d' ' -f1", shell=True, stdout=subprocess.PIPE, text=True).stdout.strip()
        for d in (os.path.join(ROOT, 'harness', 'bin-alt-' + tag), os.path.join(ROOT, 'harness', 'alt-' + tag)):
            shutil.rmtree(d, ignore_errors=True)
        with lock:
            results.append(r)
            print('%-40s %-18s caught_by=%s errors=%s (%.0fs)' % (r['name'], r['status'], ','.join(r.get('caught_by', [])), ','.join(r.get('errors', [])), r['seconds']), flush=True)
            old[r['name']] = r
            json.dump(sorted(old.values(), key=lambda x: x['name']), open(resfile, 'w'), indent=1)

    if jobs <= 1:
        for m in muts:
            one(m)
    else:
        with ThreadPoolExecutor(max_workers=jobs) as ex:
            list(ex.map(one, muts))
    if benign:
        alarms = [(r['name'], r.get('caught_by'), r.get('errors')) for r in results if r.get('caught_by') or r.get('errors') or r['status'] != 'realistic']
        print('benign changes: %d  with an alarm or an error: %s' % (len(results), alarms))
        return
    real = [r for r in results if r['status'] == 'realistic']
    surv = [r['name'] for r in real if not r.get('caught_by')]
    print('realistic: %d  killed: %d  survived: %s' % (len(real), len(real) - len(surv), surv))

if __name__ == '__main__':
    main()
