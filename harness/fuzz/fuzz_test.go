// Package fuzz holds the native (coverage-guided) fuzz targets used as a second engine in the
// thorough tier of C01, C09, C13 and C17. They call the same oracle functions as the
// deterministic engine; budgets are execution counts (-fuzztime=Nx), never wall-clock time.
package fuzz

import (
	"encoding/json"
	"sync"
	"testing"

	"verifharness/internal/core"
	"verifharness/internal/props"
	"verifharness/internal/ref"
)

var (
	kfOnce sync.Once
	kfSet  *core.KFSet
	kfErr  error
)

func init() { ref.ProbeDialect() }

func judge(t *testing.T, prop string, f func(cs *core.Case)) {
	kfOnce.Do(func() { kfSet, kfErr = core.LoadKF("/verif/KNOWN_FINDINGS.txt") })
	kf, err := kfSet, kfErr
	if err != nil {
		t.Skip("cannot load known findings: " + err.Error())
	}
	c := core.NewCtx(prop, core.Thorough, 1, 0, 1, kf)
	cs := &core.Case{C: c, R: core.NewRand(1), Section: "native-fuzz", Idx: 0}
	f(cs)
	if c.Res.ViolationCount > 0 {
		b, _ := json.Marshal(c.Res.Violations)
		if len(b) > 6000 {
			b = b[:6000]
		}
		t.Fatalf("VIOLATION property=%s %s", prop, b)
	}
	if len(c.Res.HarnessErrors) > 0 {
		t.Skipf("harness error: %v", c.Res.HarnessErrors)
	}
}

func seed(f *testing.F) {
	for _, s := range props.FuzzSeeds() {
		f.Add(s)
	}
}

func FuzzDecodeAll(f *testing.F) {
	seed(f)
	f.Fuzz(func(t *testing.T, data []byte) {
		judge(t, "C01", func(cs *core.Case) { props.FuzzC01(cs, data) })
	})
}

func FuzzReencode(f *testing.F) {
	seed(f)
	f.Fuzz(func(t *testing.T, data []byte) {
		judge(t, "C09", func(cs *core.Case) { props.FuzzC09(cs, data) })
	})
}

func FuzzTWCC(f *testing.F) {
	seed(f)
	f.Fuzz(func(t *testing.T, data []byte) {
		judge(t, "C13", func(cs *core.Case) { props.FuzzC13(cs, data) })
	})
}

func FuzzString(f *testing.F) {
	seed(f)
	f.Fuzz(func(t *testing.T, data []byte) {
		judge(t, "C17", func(cs *core.Case) { props.FuzzC17(cs, data) })
	})
}
