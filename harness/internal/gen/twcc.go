package gen

import (
	"github.com/pion/rtcp"

	"verifharness/internal/core"
)

// TWCCModel is the chunking-independent content of a transport-wide-cc feedback packet: one
// status per reported packet and one delta (in 250 µs units) per received packet.
type TWCCModel struct {
	Sender, Media uint32
	Base          uint16
	RefTime       uint32 // 24 bit
	FbCount       uint8
	// NoPFlag: the caller-supplied header leaves the padding bit clear although the content is
	// padded to 32 bits with zero octets (the draft's "zero padding"; length field counts it).
	NoPFlag bool
	Status  []uint8 // 0 not received, 1 small delta, 2 large delta
	Deltas  []int64 // units of 250 µs, one per status != 0, in order
	Rem     []int64 // optional: microseconds below one unit added to the value's Delta (same index as Deltas; only for non-negative deltas, where rounding down and rounding toward zero agree)
}

// TWCCModelGen draws a model. Lengths 0…600 (a few longer unless NoBig/Small).
func TWCCModelGen(r *core.Rand, o Opts) *TWCCModel {
	m := &TWCCModel{Sender: r.B32(), Media: r.B32(), Base: r.B16(), RefTime: r.B32() & 0xFFFFFF, FbCount: r.B8(), NoPFlag: r.Chance(1, 4)}
	var n int
	switch r.Intn(10) {
	case 0:
		n = 0
	case 1:
		n = 1
	case 2:
		n = r.Pick(6, 7, 8, 13, 14, 15, 21, 28, 29)
	case 3:
		n = 40 + r.Intn(561)
	default:
		n = r.Intn(40)
	}
	if o.Small && n > 30 {
		n = n % 31
	}
	if !o.NoBig && !o.Small && r.Chance(1, 300) {
		n = r.Pick(8191, 8192, 20000, 65535)
	}
	mode := r.Intn(4)
	if n > 20000 {
		mode = 4 // mostly not received: keeps the encoding below 65536 octets (Len() is a uint16 by API)
	}
	for len(m.Status) < n {
		var sym uint8
		switch mode {
		case 0:
			sym = uint8(r.Intn(3))
		case 1:
			sym = uint8(r.Intn(2))
		case 4:
			sym = uint8(r.Pick(0, 0, 0, 0, 0, 0, 0, 1))
		default:
			sym = uint8(r.Pick(0, 1, 1, 1, 2))
		}
		run := 1
		if r.Chance(1, 3) {
			run = 1 + r.Intn(30)
		}
		if n > 1000 && r.Chance(1, 2) {
			run = 1 + r.Intn(9000)
		}
		for ; run > 0 && len(m.Status) < n; run-- {
			m.Status = append(m.Status, sym)
		}
	}
	for _, s := range m.Status {
		switch s {
		case 1:
			m.Deltas = append(m.Deltas, int64(r.Pick(0, 1, 4, 254, 255, r.Intn(256))))
		case 2:
			m.Deltas = append(m.Deltas, int64(r.Pick(-32768, -32767, -1, 0, 256, 32766, 32767, r.Intn(65536)-32768)))
		}
	}
	if r.Chance(1, 4) {
		// neighbouring deltas of different size class with the same value (a large delta inside the
		// small range): equal numbers, different widths on the wire
		di := 0
		prevSym, prevIdx := uint8(0), -1
		for _, sym := range m.Status {
			if sym == 0 {
				continue
			}
			if prevIdx >= 0 && sym != prevSym && r.Bool() {
				v := m.Deltas[prevIdx]
				if v < 0 || v > 255 {
					v = int64(1 + r.Intn(255))
					m.Deltas[prevIdx] = v
				}
				m.Deltas[di] = v
			}
			prevSym, prevIdx = sym, di
			di++
		}
	}
	if r.Chance(1, 4) {
		// deltas that are not whole units: the documented quantisation drops the remainder
		m.Rem = make([]int64, len(m.Deltas))
		for i, u := range m.Deltas {
			if u >= 0 {
				m.Rem[i] = int64(r.Pick(0, 1, 125, 249, r.Intn(250)))
			}
		}
	}
	return m
}

// ChunkOpts selects chunkings beyond the canonical ones.
type ChunkOpts struct {
	// ZeroRuns sprinkles run-length chunks of length 0 between the others (while statuses remain).
	ZeroRuns bool
	// OvershootRun lets the final run-length chunk announce more packets than remain.
	OvershootRun bool
}

// Chunks draws a random valid chunking of the status sequence: run-length where a run
// exists, 1-bit vectors where no large delta occurs, 2-bit vectors anywhere. Vector chunks
// always carry 14 / 7 symbols; symbols beyond the status count are zero.
func (m *TWCCModel) Chunks(r *core.Rand, co ChunkOpts) []rtcp.PacketStatusChunk {
	var out []rtcp.PacketStatusChunk
	n := len(m.Status)
	pref := r.Intn(4) // 0 mixed, 1 prefer run, 2 prefer 1-bit, 3 prefer 2-bit
	for i := 0; i < n; {
		if co.ZeroRuns && r.Chance(1, 8) {
			// a run-length chunk of length 0: legal, wasteful, announces nothing
			out = append(out, &rtcp.RunLengthChunk{Type: 0, PacketStatusSymbol: uint16(r.Intn(3)), RunLength: 0})
		}
		rem := n - i
		run := 1
		for i+run < n && m.Status[i+run] == m.Status[i] && run < 8191 {
			run++
		}
		v1ok := true
		for j := 0; j < 14 && j < rem; j++ {
			if m.Status[i+j] > 1 {
				v1ok = false
			}
		}
		choice := r.Intn(3)
		switch pref {
		case 1:
			if r.Chance(3, 4) {
				choice = 0
			}
		case 2:
			if r.Chance(3, 4) {
				choice = 1
			}
		case 3:
			if r.Chance(3, 4) {
				choice = 2
			}
		}
		if choice == 1 && !v1ok {
			choice = 2
		}
		switch choice {
		case 0:
			l := run
			if r.Chance(1, 4) {
				l = 1 + r.Intn(run)
			}
			rl := l
			if co.OvershootRun && i+l == n && l < 8191 && r.Bool() {
				rl = l + 1 + r.Intn(8191-l)
				if rl > 8191 {
					rl = 8191
				}
			}
			out = append(out, &rtcp.RunLengthChunk{Type: 0, PacketStatusSymbol: uint16(m.Status[i]), RunLength: uint16(rl)})
			i += l
		case 1:
			sl := make([]uint16, 14)
			for j := 0; j < 14 && j < rem; j++ {
				sl[j] = uint16(m.Status[i+j])
			}
			out = append(out, &rtcp.StatusVectorChunk{Type: 1, SymbolSize: 0, SymbolList: sl})
			i += 14
		default:
			sl := make([]uint16, 7)
			for j := 0; j < 7 && j < rem; j++ {
				sl[j] = uint16(m.Status[i+j])
			}
			out = append(out, &rtcp.StatusVectorChunk{Type: 1, SymbolSize: 1, SymbolList: sl})
			i += 7
		}
	}
	return out
}

// Value assembles the packet value with a header consistent with the content.
func (m *TWCCModel) Value(chunks []rtcp.PacketStatusChunk) *rtcp.TransportLayerCC {
	t := &rtcp.TransportLayerCC{SenderSSRC: m.Sender, MediaSSRC: m.Media, BaseSequenceNumber: m.Base,
		PacketStatusCount: uint16(len(m.Status)), ReferenceTime: m.RefTime, FbPktCount: m.FbCount, PacketChunks: chunks}
	size := 20 + 2*len(chunks)
	di := 0
	for _, s := range m.Status {
		if s == 0 {
			continue
		}
		d := m.Deltas[di] * 250
		if di < len(m.Rem) {
			d += m.Rem[di]
		}
		t.RecvDeltas = append(t.RecvDeltas, &rtcp.RecvDelta{Type: uint16(s), Delta: d})
		di++
		size += int(s)
	}
	pad := (4 - size%4) % 4
	size += pad
	t.Header = rtcp.Header{Padding: pad > 0 && !m.NoPFlag, Count: 15, Type: 205, Length: uint16(size/4 - 1)}
	return t
}

// TWCCValue draws a model and one canonical chunking of it.
func TWCCValue(r *core.Rand, o Opts) (*rtcp.TransportLayerCC, *TWCCModel) {
	m := TWCCModelGen(r, o)
	t := m.Value(m.Chunks(r, ChunkOpts{}))
	if r.Chance(1, 8) {
		// equal neighbouring deltas and chunks share one object (a sender that builds feedback from
		// a table of preallocated deltas does this)
		for i := 1; i < len(t.RecvDeltas); i++ {
			if *t.RecvDeltas[i] == *t.RecvDeltas[i-1] {
				t.RecvDeltas[i] = t.RecvDeltas[i-1]
			}
		}
		for i := 1; i < len(t.PacketChunks); i++ {
			a, aok := t.PacketChunks[i-1].(*rtcp.RunLengthChunk)
			b, bok := t.PacketChunks[i].(*rtcp.RunLengthChunk)
			if aok && bok && *a == *b {
				t.PacketChunks[i] = a
			}
		}
	}
	return t, m
}
