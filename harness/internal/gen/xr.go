package gen

import (
	"github.com/pion/rtcp"

	"verifharness/internal/core"
)

// XRKind enumerates the 7 defined block kinds plus the unknown kind.
type XRKind int

const (
	XLoss XRKind = iota
	XDup
	XPRT
	XRRT
	XDLRR
	XStat
	XVoIP
	XUnknown
	NumXRKinds
)

var xrKindNames = [...]string{"LossRLE", "DuplicateRLE", "PacketReceiptTimes", "ReceiverReferenceTime", "DLRR", "StatisticsSummary", "VoIPMetrics", "Unknown"}

func (k XRKind) String() string { return xrKindNames[k] }

// XRKindOf classifies a block value.
func XRKindOf(b rtcp.ReportBlock) XRKind {
	switch b.(type) {
	case *rtcp.LossRLEReportBlock:
		return XLoss
	case *rtcp.DuplicateRLEReportBlock:
		return XDup
	case *rtcp.PacketReceiptTimesReportBlock:
		return XPRT
	case *rtcp.ReceiverReferenceTimeReportBlock:
		return XRRT
	case *rtcp.DLRRReportBlock:
		return XDLRR
	case *rtcp.StatisticsSummaryReportBlock:
		return XStat
	case *rtcp.VoIPMetricsReportBlock:
		return XVoIP
	case *rtcp.UnknownReportBlock:
		return XUnknown
	}
	return -1
}

// XRBlockType is the RFC 3611 registry: block type octet of each defined kind.
func XRBlockType(k XRKind) uint8 { return uint8(k) + 1 }

// seqRange draws the begin / end sequence numbers of a block that reports on n entries: in half of
// the cases independent boundary-biased values, otherwise a range that means something — end is
// begin + n, one less or one more (the reading of "end" as inclusive or exclusive), anywhere on
// the ring including across the wrap. Nothing on the wire depends on the relation; a decoder that
// "repairs" blocks whose fields agree in some way does.
func seqRange(r *core.Rand, n int) (uint16, uint16) {
	if r.Bool() {
		return r.B16(), r.B16()
	}
	begin := r.B16()
	if r.Chance(1, 4) {
		begin = uint16(65536 - r.Intn(n+3))
	}
	return begin, begin + uint16(n+r.Pick(-1, 0, 1))
}

func xrChunk(r *core.Rand) rtcp.Chunk {
	switch r.Intn(6) {
	case 0:
		return rtcp.Chunk(0)
	case 1:
		return rtcp.Chunk(0x8000 | r.U16())
	case 2:
		return rtcp.Chunk(r.U16() & 0x7FFF)
	case 3:
		return rtcp.Chunk(0x4000 | r.U16()&0x3FFF)
	default:
		return rtcp.Chunk(r.B16())
	}
}

// XRBlock draws one block of kind k. unaligned permits the KF5 class (odd chunk counts,
// unknown content not a multiple of 4).
func XRBlock(r *core.Rand, k XRKind, unaligned bool) rtcp.ReportBlock {
	ll := func(max int) int {
		switch r.Intn(6) {
		case 0:
			return 0
		case 1:
			return 1
		case 2:
			return 2
		case 3:
			return max
		}
		return r.Intn(max + 1)
	}
	switch k {
	case XLoss, XDup:
		n := ll(40)
		if !unaligned {
			n -= n % 2
		}
		var cs []rtcp.Chunk
		for i := 0; i < n; i++ {
			cs = append(cs, xrChunk(r))
		}
		begin, end := seqRange(r, len(cs))
		if k == XLoss {
			return &rtcp.LossRLEReportBlock{T: uint8(r.Intn(16)), SSRC: r.B32(), BeginSeq: begin, EndSeq: end, Chunks: cs}
		}
		return &rtcp.DuplicateRLEReportBlock{T: uint8(r.Intn(16)), SSRC: r.B32(), BeginSeq: begin, EndSeq: end, Chunks: cs}
	case XPRT:
		n := ll(40)
		var ts []uint32
		for i := 0; i < n; i++ {
			ts = append(ts, r.B32())
		}
		if n > 0 && r.Chance(1, 3) {
			ts[r.Pick(0, n-1, n-1)] = uint32(r.Pick(0, 0, 1, 0xFFFFFFFF))
		}
		begin, end := seqRange(r, n)
		return &rtcp.PacketReceiptTimesReportBlock{T: uint8(r.Intn(16)), SSRC: r.B32(), BeginSeq: begin, EndSeq: end, ReceiptTime: ts}
	case XRRT:
		return &rtcp.ReceiverReferenceTimeReportBlock{NTPTimestamp: r.B64()}
	case XDLRR:
		n := ll(40)
		var rs []rtcp.DLRRReport
		for i := 0; i < n; i++ {
			rs = append(rs, rtcp.DLRRReport{SSRC: r.B32(), LastRR: r.B32(), DLRR: r.B32()})
		}
		return &rtcp.DLRRReportBlock{Reports: rs}
	case XStat:
		return &rtcp.StatisticsSummaryReportBlock{LossReports: r.Bool(), DuplicateReports: r.Bool(), JitterReports: r.Bool(),
			TTLorHopLimit: rtcp.TTLorHopLimitType(r.Intn(4)), SSRC: r.B32(), BeginSeq: r.B16(), EndSeq: r.B16(),
			LostPackets: r.B32(), DupPackets: r.B32(), MinJitter: r.B32(), MaxJitter: r.B32(), MeanJitter: r.B32(), DevJitter: r.B32(),
			MinTTLOrHL: r.B8(), MaxTTLOrHL: r.B8(), MeanTTLOrHL: r.B8(), DevTTLOrHL: r.B8()}
	case XVoIP:
		return &rtcp.VoIPMetricsReportBlock{SSRC: r.B32(), LossRate: r.B8(), DiscardRate: r.B8(), BurstDensity: r.B8(), GapDensity: r.B8(),
			BurstDuration: r.B16(), GapDuration: r.B16(), RoundTripDelay: r.B16(), EndSystemDelay: r.B16(),
			SignalLevel: r.B8(), NoiseLevel: r.B8(), RERL: r.B8(), Gmin: r.B8(), RFactor: r.B8(), ExtRFactor: r.B8(), MOSLQ: r.B8(), MOSCQ: r.B8(),
			RXConfig: r.B8(), JBNominal: r.B16(), JBMaximum: r.B16(), JBAbsMax: r.B16()}
	default:
		bt := uint8(r.Pick(0, 8, 9, 255, 8+r.Intn(248)))
		n := 4 * ll(12)
		if unaligned {
			n += r.Intn(4)
		}
		var bs []byte
		if n > 0 || r.Bool() {
			bs = r.Bytes(n)
		}
		return &rtcp.UnknownReportBlock{XRHeader: rtcp.XRHeader{BlockType: rtcp.BlockTypeType(bt), TypeSpecific: rtcp.TypeSpecificField(r.B8())}, Bytes: bs}
	}
}

func xr(r *core.Rand, o Opts) *rtcp.ExtendedReport {
	x := &rtcp.ExtendedReport{SenderSSRC: r.B32()}
	n := r.Pick(0, 1, 1, 2, 3, 4, 8)
	if o.Small && n > 3 {
		n = 3
	}
	kf := o.AllowKF && r.Chance(1, 8)
	for i := 0; i < n; i++ {
		x.Reports = append(x.Reports, XRBlock(r, XRKind(r.Intn(int(NumXRKinds))), kf))
	}
	if r.Chance(1, 6) {
		PrefillXRHeaders(r, x)
	}
	if len(x.Reports) >= 1 && len(x.Reports) < 8 && r.Chance(1, 10) {
		i := r.Intn(len(x.Reports)) // one block (one pointer) twice: at the end, or as its own neighbour
		if r.Bool() {
			x.Reports = append(x.Reports, x.Reports[i])
		} else {
			x.Reports = append(x.Reports[:i+1], append([]rtcp.ReportBlock{x.Reports[i]}, x.Reports[i+1:]...)...)
		}
	}
	return x
}

// PrefillXRHeaders puts arbitrary content into the XRHeader convenience field of every block
// of a known kind (as an earlier Marshal or Unmarshal of a block that has since been modified
// leaves it, or as a careless caller fills it): Marshal derives that field from the block's
// own fields and must not be influenced by what it held. For unknown blocks BlockType and
// TypeSpecific are the value; only the derived BlockLength is arbitrary.
func PrefillXRHeaders(r *core.Rand, x *rtcp.ExtendedReport) {
	h := func() rtcp.XRHeader {
		if r.Chance(1, 3) {
			// the coherent header of some block (possibly of another kind): what copying the
			// header of a decoded block into a new block leaves behind
			tl := [][2]int{{1, 2}, {1, 3}, {2, 2}, {2, 4}, {3, 2}, {3, 5}, {4, 2}, {5, 0}, {5, 3}, {5, 6}, {6, 9}, {7, 8}}[r.Intn(12)]
			return rtcp.XRHeader{BlockType: rtcp.BlockTypeType(tl[0]), TypeSpecific: rtcp.TypeSpecificField(r.Pick(0, 0, 0xE0, 0x0F, int(r.U8()))), BlockLength: uint16(tl[1])}
		}
		return rtcp.XRHeader{BlockType: rtcp.BlockTypeType(r.Pick(0, 1, 2, 3, 4, 5, 6, 7, 8, 255)), TypeSpecific: rtcp.TypeSpecificField(r.Pick(0, 0xFF, 0xF8, 0x07, 0x18, 0x80, 0x40, 0x20, 0x10, 0x08, int(r.U8()))), BlockLength: uint16(r.Pick(0, 1, 3, 6, 65535, int(r.U16())))}
	}
	for _, b := range x.Reports {
		switch v := b.(type) {
		case *rtcp.LossRLEReportBlock:
			v.XRHeader = h()
		case *rtcp.DuplicateRLEReportBlock:
			v.XRHeader = h()
		case *rtcp.PacketReceiptTimesReportBlock:
			v.XRHeader = h()
		case *rtcp.ReceiverReferenceTimeReportBlock:
			v.XRHeader = h()
		case *rtcp.DLRRReportBlock:
			v.XRHeader = h()
		case *rtcp.StatisticsSummaryReportBlock:
			v.XRHeader = h()
		case *rtcp.VoIPMetricsReportBlock:
			v.XRHeader = h()
		case *rtcp.UnknownReportBlock:
			v.XRHeader.BlockLength = h().BlockLength
		}
	}
}

// IsKF5 reports whether an XR value has a block whose wire size is not a multiple of 4.
func IsKF5(p rtcp.Packet) bool {
	x, ok := p.(*rtcp.ExtendedReport)
	if !ok {
		return false
	}
	for _, b := range x.Reports {
		switch v := b.(type) {
		case *rtcp.LossRLEReportBlock:
			if len(v.Chunks)%2 != 0 {
				return true
			}
		case *rtcp.DuplicateRLEReportBlock:
			if len(v.Chunks)%2 != 0 {
				return true
			}
		case *rtcp.UnknownReportBlock:
			if len(v.Bytes)%4 != 0 {
				return true
			}
		}
	}
	return false
}

// ContainsKind reports whether p is, or (for compound packets and lists) contains, a value
// satisfying pred.
func Contains(p rtcp.Packet, pred func(rtcp.Packet) bool) bool {
	if c, ok := p.(*rtcp.CompoundPacket); ok {
		for _, m := range *c {
			if Contains(m, pred) {
				return true
			}
		}
		return false
	}
	return pred(p)
}

// IsSLI reports whether p is a SliceLossIndication (KF1).
func IsSLI(p rtcp.Packet) bool { _, ok := p.(*rtcp.SliceLossIndication); return ok }
