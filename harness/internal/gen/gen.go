// Package gen holds the seeded, boundary-biased generators of packet values over the
// well-formed domain D (DESIGN.md §3), plus predicates naming the input classes of the open
// findings.
package gen

import (
	"math"

	"github.com/pion/rtcp"

	"verifharness/internal/core"
)

// Kind enumerates the 16 Packet implementations.
type Kind int

const (
	SR Kind = iota
	RR
	SDES
	BYE
	APP
	NACK
	RRR
	TWCC
	CCFB
	PLI
	SLI
	REMB
	FIR
	XR
	Raw
	Compound
	NumKinds
)

var kindNames = [...]string{"SenderReport", "ReceiverReport", "SourceDescription", "Goodbye", "ApplicationDefined",
	"TransportLayerNack", "RapidResynchronizationRequest", "TransportLayerCC", "CCFeedbackReport", "PictureLossIndication",
	"SliceLossIndication", "ReceiverEstimatedMaximumBitrate", "FullIntraRequest", "ExtendedReport", "RawPacket", "CompoundPacket"}

func (k Kind) String() string { return kindNames[k] }

// Registered are the 14 kinds the datagram decoder dispatches to (not Raw, Compound).
var Registered = []Kind{SR, RR, SDES, BYE, APP, NACK, RRR, TWCC, CCFB, PLI, SLI, REMB, FIR, XR}

// KindOf returns the kind of a packet value.
func KindOf(p rtcp.Packet) Kind {
	switch p.(type) {
	case *rtcp.SenderReport:
		return SR
	case *rtcp.ReceiverReport:
		return RR
	case *rtcp.SourceDescription:
		return SDES
	case *rtcp.Goodbye:
		return BYE
	case *rtcp.ApplicationDefined:
		return APP
	case *rtcp.TransportLayerNack:
		return NACK
	case *rtcp.RapidResynchronizationRequest:
		return RRR
	case *rtcp.TransportLayerCC:
		return TWCC
	case *rtcp.CCFeedbackReport:
		return CCFB
	case *rtcp.PictureLossIndication:
		return PLI
	case *rtcp.SliceLossIndication:
		return SLI
	case *rtcp.ReceiverEstimatedMaximumBitrate:
		return REMB
	case *rtcp.FullIntraRequest:
		return FIR
	case *rtcp.ExtendedReport:
		return XR
	case *rtcp.RawPacket:
		return Raw
	case *rtcp.CompoundPacket:
		return Compound
	}
	return -1
}

// New returns a fresh zero value of the kind.
func New(k Kind) rtcp.Packet {
	switch k {
	case SR:
		return &rtcp.SenderReport{}
	case RR:
		return &rtcp.ReceiverReport{}
	case SDES:
		return &rtcp.SourceDescription{}
	case BYE:
		return &rtcp.Goodbye{}
	case APP:
		return &rtcp.ApplicationDefined{}
	case NACK:
		return &rtcp.TransportLayerNack{}
	case RRR:
		return &rtcp.RapidResynchronizationRequest{}
	case TWCC:
		return &rtcp.TransportLayerCC{}
	case CCFB:
		return &rtcp.CCFeedbackReport{}
	case PLI:
		return &rtcp.PictureLossIndication{}
	case SLI:
		return &rtcp.SliceLossIndication{}
	case REMB:
		return &rtcp.ReceiverEstimatedMaximumBitrate{}
	case FIR:
		return &rtcp.FullIntraRequest{}
	case XR:
		return &rtcp.ExtendedReport{}
	case Raw:
		return &rtcp.RawPacket{}
	case Compound:
		return &rtcp.CompoundPacket{}
	}
	return nil
}

// Opts widens the generated domain beyond D into the classes of the open findings and of the
// unaligned variable parts that C05 quantifies over.
type Opts struct {
	// AllowKF: a minority of CCFB values have n = 1 or a range crossing 65535→0 (KF2), a
	// minority of XR values have an unaligned block (KF5), REMB bitrates below 1 (KF3).
	AllowKF bool
	// UnalignedSRExt lets SenderReport profile extensions have any length (C05 only).
	UnalignedSRExt bool
	// Small caps list lengths (for datagrams of many packets).
	Small bool
	// NoBig avoids the rare very large values (16384-metric CCFB blocks, 65535 TWCC runs).
	NoBig bool
}

// listLen draws a list length in [min,max] biased to the boundaries.
func listLen(r *core.Rand, min, max int, small bool) int {
	if small && max > min+4 {
		max = min + 4
	}
	switch r.Intn(9) {
	case 0:
		return min
	case 1:
		if min+1 <= max {
			return min + 1
		}
	case 2:
		if min+2 <= max {
			return min + 2
		}
	case 3:
		return max
	case 4:
		if max-1 >= min {
			return max - 1
		}
	}
	return r.Range(min, max)
}

// Text draws a text of 0…255 arbitrary octets, biased to alignment boundaries.
// TextN draws a text of exactly n octets from one of several alphabets: ASCII letters, arbitrary
// octets, valid 2-, 3- and 4-octet UTF-8 sequences (so that the count of characters is a half,
// a third or a quarter of the count of octets), a mixture, NULs.
func TextN(r *core.Rand, n int) string {
	b := make([]byte, 0, n+4)
	mode := r.Intn(7)
	for len(b) < n {
		m := mode
		if mode == 5 {
			m = r.Intn(5)
		}
		switch m {
		case 0:
			b = append(b, byte('a'+r.Intn(26)))
		case 1:
			b = append(b, r.U8())
		case 2:
			b = append(b, byte(0xC2+r.Intn(0x1E)), byte(0x80+r.Intn(0x40)))
		case 3:
			b = append(b, byte(0xE1+r.Intn(0x0C)), byte(0x80+r.Intn(0x40)), byte(0x80+r.Intn(0x40)))
		case 4:
			b = append(b, byte(0xF1+r.Intn(3)), byte(0x80+r.Intn(0x40)), byte(0x80+r.Intn(0x40)), byte(0x80+r.Intn(0x40)))
		default:
			b = append(b, 0)
		}
	}
	for i := n; i < len(b); i++ { // cut inside a sequence: finish with ASCII
		b[i] = 0
	}
	b = b[:n]
	// a multi-octet sequence cut at the end is replaced by ASCII so that the text stays valid UTF-8
	// in the pure multi-octet modes
	if mode >= 2 && mode <= 4 {
		for i := n - 1; i >= 0 && i >= n-3; i-- {
			if b[i] >= 0xC0 { // a lead byte whose sequence does not fit
				need := 2
				if b[i] >= 0xE0 {
					need = 3
				}
				if b[i] >= 0xF0 {
					need = 4
				}
				if i+need > n {
					for j := i; j < n; j++ {
						b[j] = 'x'
					}
				}
				break
			}
		}
	}
	// now and then a text begins or ends with something a normaliser would strip or rewrite: a
	// byte order mark, white space, a NUL, a replacement character, a C1 control, a quote
	textEdges(r, b)
	return string(b)
}

func textEdges(r *core.Rand, b []byte) {
	n := len(b)
	if n > 0 && r.Chance(1, 6) {
		tok := textEdgeTokens[r.Intn(len(textEdgeTokens))]
		if len(tok) <= n {
			if r.Bool() {
				copy(b, tok)
			} else {
				copy(b[n-len(tok):], tok)
			}
			if r.Chance(1, 4) && 2*len(tok) <= n { // both ends
				copy(b, tok)
				copy(b[n-len(tok):], tok)
			}
		}
	}
}

var textEdgeTokens = []string{"\uFEFF", "\uFEFF", " ", "  ", "\t", "\n", "\r\n", "\x00", "\x00\x00", "\uFFFD", "\u0085", "\u00A0", "\u2028", "\"", "'", "%", "\\", "\uFFFE", "\u200B"}

func Text(r *core.Rand) string {
	var n int
	switch r.Intn(12) {
	case 0:
		n = 0
	case 1:
		n = 1
	case 2:
		n = 2
	case 3:
		n = 3
	case 4:
		n = 4
	case 5:
		n = 5
	case 6:
		n = 254
	case 7:
		n = 255
	default:
		n = r.Intn(40)
	}
	if r.Chance(1, 12) {
		n = r.Pick(31, 32, 33, 34, 63, 64, 65, 127, 128, 129) // lengths at which a formatter might abbreviate
	}
	b := make([]byte, n)
	mode := r.Intn(7)
	// octet classes of UTF-8: ASCII, continuation bytes, 2/3/4-byte lead bytes, invalid bytes
	classes := [][2]int{{0x00, 0x00}, {0x01, 0x7F}, {0x80, 0xBF}, {0xC2, 0xDF}, {0xE0, 0xEF}, {0xF0, 0xF4}, {0xF5, 0xFF}, {0xC0, 0xC1}}
	cl := classes[r.Intn(len(classes))]
	constant := byte(cl[0] + r.Intn(cl[1]-cl[0]+1))
	for i := range b {
		switch mode {
		case 0:
			b[i] = byte('a' + r.Intn(26))
		case 1:
			b[i] = r.U8() // arbitrary octets incl. NUL and non-UTF-8
		case 2:
			b[i] = 0
		case 3:
			b[i] = byte(0x20 + r.Intn(0x5f))
		case 4:
			b[i] = byte(cl[0] + r.Intn(cl[1]-cl[0]+1)) // every octet from one UTF-8 class
		case 5:
			b[i] = constant // one octet repeated
		default: // valid multi-byte UTF-8 (possibly truncated by the length cap)
			copy(b[i:], string(rune(r.Pick(0xE9, 0x20AC, 0x1F600, 0x7FF, 0x800, 0xFFFD, 0x10FFFF))))
		}
	}
	textEdges(r, b)
	return string(b)
}

// Report draws one reception report block (TotalLost < 2^24).
func Report(r *core.Rand) rtcp.ReceptionReport {
	tl := r.U32() & 0xFFFFFF
	switch r.Intn(6) {
	case 0:
		tl = 0
	case 1:
		tl = 0xFFFFFF
	case 2:
		tl = 0x800000
	}
	return rtcp.ReceptionReport{SSRC: r.B32(), FractionLost: r.B8(), TotalLost: tl, LastSequenceNumber: r.B32(),
		Jitter: r.B32(), LastSenderReport: r.B32(), Delay: r.B32()}
}

func reportList(r *core.Rand, o Opts) []rtcp.ReceptionReport {
	n := listLen(r, 0, 31, o.Small)
	if n == 0 && r.Bool() {
		return nil
	}
	out := make([]rtcp.ReceptionReport, n)
	for i := range out {
		out[i] = Report(r)
	}
	return out
}

func extLen(r *core.Rand, aligned bool) int {
	n := r.Pick(0, 0, 0, 1, 2, 3, 4, 5, 6, 7, 8, 9, 12, 16, 63, 64)
	if aligned {
		n -= n % 4
	}
	return n
}

func ext(r *core.Rand, n int) []byte {
	if n == 0 {
		return nil
	}
	b := r.Bytes(n)
	if r.Chance(1, 4) {
		for i := range b {
			b[i] = 0xFF
		}
	}
	return b
}

// Packet draws one value of kind k from D (widened per o).
func Packet(r *core.Rand, k Kind, o Opts) rtcp.Packet {
	switch k {
	case SR:
		return &rtcp.SenderReport{SSRC: r.B32(), NTPTime: r.B64(), RTPTime: r.B32(), PacketCount: r.B32(), OctetCount: r.B32(),
			Reports: reportList(r, o), ProfileExtensions: ext(r, extLen(r, !o.UnalignedSRExt))}
	case RR:
		return &rtcp.ReceiverReport{SSRC: r.B32(), Reports: reportList(r, o), ProfileExtensions: ext(r, extLen(r, false))}
	case SDES:
		n := listLen(r, 0, 31, o.Small)
		s := &rtcp.SourceDescription{}
		for i := 0; i < n; i++ {
			c := rtcp.SourceDescriptionChunk{Source: r.B32()}
			ni := r.Pick(0, 1, 1, 1, 2, 3, 8)
			if n > 8 && ni > 2 {
				ni = 2
			}
			for j := 0; j < ni; j++ {
				t := rtcp.SDESType(1 + r.Intn(255))
				if r.Chance(1, 2) {
					t = rtcp.SDESType(1 + r.Intn(8))
				}
				c.Items = append(c.Items, rtcp.SourceDescriptionItem{Type: t, Text: Text(r)})
			}
			s.Chunks = append(s.Chunks, c)
		}
		return s
	case BYE:
		n := listLen(r, 0, 31, o.Small)
		g := &rtcp.Goodbye{}
		for i := 0; i < n; i++ {
			g.Sources = append(g.Sources, r.B32())
		}
		if r.Chance(2, 3) {
			g.Reason = Text(r)
		}
		return g
	case APP:
		nm := r.Bytes(4)
		if r.Bool() {
			nm = []byte("PION")
		}
		dl := r.Pick(0, 1, 2, 3, 4, 5, 6, 7, 8, 9, 15, 16, 17, 100, 255, 256, 1499, 1500)
		if o.Small && dl > 64 {
			dl = dl % 17
		}
		var data []byte
		if dl > 0 || r.Bool() {
			data = r.Bytes(dl)
		}
		if dl > 0 && r.Chance(1, 4) {
			// data ending in small values: looks like a padding count to a careless decoder
			data[dl-1] = byte(r.Intn(5))
		}
		return &rtcp.ApplicationDefined{SubType: uint8(r.Intn(32)), SSRC: r.B32(), Name: string(nm), Data: data}
	case NACK:
		n := listLen(r, 1, 253, o.Small)
		p := &rtcp.TransportLayerNack{SenderSSRC: r.B32(), MediaSSRC: r.B32()}
		for i := 0; i < n; i++ {
			p.Nacks = append(p.Nacks, rtcp.NackPair{PacketID: r.B16(), LostPackets: rtcp.PacketBitmap(r.B16())})
		}
		return p
	case RRR:
		return &rtcp.RapidResynchronizationRequest{SenderSSRC: r.B32(), MediaSSRC: r.B32()}
	case PLI:
		return &rtcp.PictureLossIndication{SenderSSRC: r.B32(), MediaSSRC: r.B32()}
	case SLI:
		n := listLen(r, 1, 253, o.Small)
		p := &rtcp.SliceLossIndication{SenderSSRC: r.B32(), MediaSSRC: r.B32()}
		for i := 0; i < n; i++ {
			p.SLI = append(p.SLI, rtcp.SLIEntry{First: r.B16() & 0x1FFF, Number: r.B16() & 0x1FFF, Picture: r.B8() & 0x3F})
		}
		return p
	case FIR:
		n := listLen(r, 1, 256, o.Small)
		p := &rtcp.FullIntraRequest{SenderSSRC: r.B32(), MediaSSRC: r.B32()}
		for i := 0; i < n; i++ {
			p.FIR = append(p.FIR, rtcp.FIREntry{SSRC: r.B32(), SequenceNumber: r.B8()})
		}
		return p
	case REMB:
		n := listLen(r, 0, 255, o.Small)
		p := &rtcp.ReceiverEstimatedMaximumBitrate{SenderSSRC: r.B32(), Bitrate: Bitrate(r, o.AllowKF)}
		for i := 0; i < n; i++ {
			p.SSRCs = append(p.SSRCs, r.B32())
		}
		return p
	case TWCC:
		t, _ := TWCCValue(r, o)
		return t
	case CCFB:
		return ccfb(r, o)
	case XR:
		return xr(r, o)
	case Raw:
		return RawValue(r)
	case Compound:
		return CompoundValue(r, o)
	}
	return nil
}

// Bitrate draws a finite non-negative float32, dense around powers of two, mantissa carries
// and the saturation point. Values below 1 (reference mantissa 0: KF3) only if allowKF.
func Bitrate(r *core.Rand, allowKF bool) float32 {
	var f float32
	switch r.Intn(10) {
	case 0:
		e := r.Intn(84)
		f = float32(math.Ldexp(1, e))
	case 1:
		e := r.Intn(84)
		f = math.Float32frombits(math.Float32bits(float32(math.Ldexp(1, e))) + uint32(r.Intn(5)) - 2)
	case 2:
		e := 17 + r.Intn(64)
		f = float32(math.Ldexp(float64(0x3FFFF), e-17))
		f = math.Float32frombits(math.Float32bits(f) + uint32(r.Intn(5)) - 2)
	case 3:
		f = float32(math.Ldexp(float64(0x3FFFF), 63))
		f = math.Float32frombits(math.Float32bits(f) + uint32(r.Intn(7)) - 3)
	case 4:
		f = float32(r.Intn(1 << 19))
	case 5:
		f = math.MaxFloat32
	case 6:
		f = float32(r.Intn(1<<24)) / 64
	default:
		f = math.Float32frombits(r.U32() & 0x7FFFFFFF)
	}
	if f != f || math.IsInf(float64(f), 0) || f < 0 {
		f = 1e6
	}
	if f < 1 && !(allowKF && r.Chance(1, 3)) {
		f += 1
	}
	return f
}

// IsKF3 reports whether the REMB value's reference mantissa is 0 (bitrate < 1).
func IsKF3(p rtcp.Packet) bool {
	v, ok := p.(*rtcp.ReceiverEstimatedMaximumBitrate)
	return ok && v.Bitrate < 1
}

func metric(r *core.Rand) rtcp.CCFeedbackMetricBlock {
	if r.Chance(1, 3) {
		return rtcp.CCFeedbackMetricBlock{}
	}
	return rtcp.CCFeedbackMetricBlock{Received: true, ECN: rtcp.ECN(r.Intn(4)), ArrivalTimeOffset: r.B16() & 0x1FFF}
}

func ccfb(r *core.Rand, o Opts) *rtcp.CCFeedbackReport {
	p := &rtcp.CCFeedbackReport{SenderSSRC: r.B32(), ReportTimestamp: r.B32()}
	nb := r.Pick(0, 1, 1, 2, 3, 6)
	if nb == 0 && r.Bool() {
		p.ReportBlocks = []rtcp.CCFeedbackReportBlock{}
	}
	for i := 0; i < nb; i++ {
		n := r.Pick(0, 2, 3, 4, 5, 8, 15, 16, 39, 40)
		if !o.NoBig && !o.Small && r.Chance(1, 400) {
			n = r.Pick(16383, 16384)
		}
		kf := o.AllowKF && r.Chance(1, 8)
		if kf && r.Bool() {
			n = 1
		}
		begin := r.B16()
		if kf && n > 1 && r.Bool() {
			begin = uint16(65536 - n + 1 + r.Intn(n-1)) // range crosses 65535→0 (KF2)
		}
		if n > 0 && int(begin)+n-1 > 65535 && !kf {
			begin = uint16(65536 - n - r.Intn(3)) // ends at or just below 65535
		}
		b := rtcp.CCFeedbackReportBlock{MediaSSRC: r.B32(), BeginSequence: begin}
		for j := 0; j < n; j++ {
			b.MetricBlocks = append(b.MetricBlocks, metric(r))
		}
		p.ReportBlocks = append(p.ReportBlocks, b)
	}
	return p
}

// IsKF2 reports whether a CCFB value has a block with exactly one metric block or a range
// crossing 65535→0.
func IsKF2(p rtcp.Packet) bool {
	v, ok := p.(*rtcp.CCFeedbackReport)
	if !ok {
		return false
	}
	for _, b := range v.ReportBlocks {
		n := len(b.MetricBlocks)
		if n == 1 || (n > 0 && int(b.BeginSequence)+n-1 > 65535) {
			return true
		}
	}
	return false
}

// HasCCFBMetrics reports whether a CCFB value has a block with at least one metric block
// (where the RFC and library dialects of num_reports differ).
func HasCCFBMetrics(p rtcp.Packet) bool {
	v, ok := p.(*rtcp.CCFeedbackReport)
	if !ok {
		return false
	}
	for _, b := range v.ReportBlocks {
		if len(b.MetricBlocks) > 0 {
			return true
		}
	}
	return false
}

// RawValue draws a RawPacket whose (PT, FMT) is not registered and whose length field
// matches its size.
func RawValue(r *core.Rand) *rtcp.RawPacket {
	var pt, cnt uint8
	for {
		pt, cnt = r.U8(), uint8(r.Intn(32))
		switch r.Intn(4) {
		case 0:
			pt = 205
		case 1:
			pt = 206
		case 2:
			pt = uint8(r.Pick(0, 1, 127, 128, 191, 192, 195, 199, 208, 209, 255))
		}
		if !IsRegistered(pt, cnt) {
			break
		}
	}
	words := r.Pick(0, 0, 1, 2, 3, 4, 5, 8, 16)
	b := make([]byte, 4+4*words)
	copy(b[4:], r.Bytes(4*words))
	b[0] = 2<<6 | cnt
	if r.Chance(1, 4) {
		b[0] |= 1 << 5
	}
	b[1] = pt
	b[2] = byte(words >> 8)
	b[3] = byte(words)
	rp := rtcp.RawPacket(b)
	return &rp
}

// IsRegistered is the dispatch registry of the statement of C07.
func IsRegistered(pt, count uint8) bool {
	switch pt {
	case 200, 201, 202, 203, 204, 207:
		return true
	case 205:
		return count == 1 || count == 5 || count == 11 || count == 15
	case 206:
		return count == 1 || count == 2 || count == 4 || count == 15
	}
	return false
}

// RegisteredKind maps (pt, count) to the registered kind (Raw if none).
func RegisteredKind(pt, count uint8) Kind {
	switch pt {
	case 200:
		return SR
	case 201:
		return RR
	case 202:
		return SDES
	case 203:
		return BYE
	case 204:
		return APP
	case 207:
		return XR
	case 205:
		switch count {
		case 1:
			return NACK
		case 5:
			return RRR
		case 11:
			return CCFB
		case 15:
			return TWCC
		}
	case 206:
		switch count {
		case 1:
			return PLI
		case 2:
			return SLI
		case 4:
			return FIR
		case 15:
			return REMB
		}
	}
	return Raw
}

// CNAMESDES draws an SDES with a CNAME item somewhere.
func CNAMESDES(r *core.Rand, o Opts) *rtcp.SourceDescription {
	s := Packet(r, SDES, Opts{Small: true}).(*rtcp.SourceDescription)
	if len(s.Chunks) == 0 {
		s.Chunks = append(s.Chunks, rtcp.SourceDescriptionChunk{Source: r.B32()})
	}
	ci := r.Intn(len(s.Chunks))
	it := rtcp.SourceDescriptionItem{Type: rtcp.SDESCNAME, Text: Text(r)}
	items := s.Chunks[ci].Items
	pos := 0
	if len(items) > 0 {
		pos = r.Intn(len(items) + 1)
	}
	items = append(items[:pos:pos], append([]rtcp.SourceDescriptionItem{it}, items[pos:]...)...)
	s.Chunks[ci].Items = items
	return s
}

// AnyKind draws a kind among the 15 non-compound kinds.
func AnyKind(r *core.Rand) Kind { return Kind(r.Intn(int(Compound))) }

// CompoundValue draws a compound packet accepted by the RFC 3550 grammar.
func CompoundValue(r *core.Rand, o Opts) *rtcp.CompoundPacket {
	so := o
	so.Small = true
	so.NoBig = true
	var c rtcp.CompoundPacket
	if r.Bool() {
		c = append(c, Packet(r, SR, so))
	} else {
		c = append(c, Packet(r, RR, so))
	}
	for i := r.Intn(3); i > 0; i-- {
		c = append(c, Packet(r, RR, so))
	}
	c = append(c, CNAMESDES(r, so))
	for i := r.Intn(5); i > 0; i-- {
		c = append(c, Packet(r, AnyKind(r), so))
	}
	if r.Chance(1, 8) {
		// the same packet (one pointer) twice in the list: a caller may well send a packet twice
		c = append(c, c[r.Intn(len(c))])
	}
	return &c
}

// List draws 1…max packets of mixed kinds.
func List(r *core.Rand, max int, o Opts) []rtcp.Packet {
	so := o
	so.Small = true
	so.NoBig = true
	n := 1 + r.Intn(max)
	out := make([]rtcp.Packet, n)
	for i := range out {
		out[i] = Packet(r, AnyKind(r), so)
	}
	if n >= 2 && r.Chance(1, 6) {
		out[r.Intn(n)] = out[r.Intn(n)] // one pointer at two positions
	}
	return out
}

// ManyBlocksXR draws an XR value of 16 382…32 769 small blocks (empty unknown blocks, empty DLRR
// blocks, receiver reference times, the odd larger block) whose encoding fits the 16-bit length.
func ManyBlocksXR(r *core.Rand) *rtcp.ExtendedReport {
	x := &rtcp.ExtendedReport{SenderSSRC: r.B32()}
	n := r.Pick(16382, 16383, 16384, 16385, 16400, 20000, 21845, 32767, 32768, 32769) // more blocks cost the monitors (several passes, one object per block) more than 10 CPU-seconds per case
	size := 8
	for i := 0; i < n && size < 262144-64; i++ {
		var b rtcp.ReportBlock
		switch k := r.Intn(16); {
		case k < 9:
			b = &rtcp.UnknownReportBlock{XRHeader: rtcp.XRHeader{BlockType: rtcp.BlockTypeType(r.Pick(0, 8, 9, 25, 100, 255)), TypeSpecific: rtcp.TypeSpecificField(r.U8())}}
			size += 4
		case k < 14:
			b = &rtcp.DLRRReportBlock{}
			size += 4
		case k < 15 || n > 40000:
			b = &rtcp.UnknownReportBlock{XRHeader: rtcp.XRHeader{BlockType: rtcp.BlockTypeType(8 + r.Intn(200))}, Bytes: r.Bytes(4)}
			size += 8
		default:
			b = &rtcp.ReceiverReferenceTimeReportBlock{NTPTimestamp: r.U64()}
			size += 12
		}
		x.Reports = append(x.Reports, b)
	}
	x.Reports = append(x.Reports, &rtcp.ReceiverReferenceTimeReportBlock{NTPTimestamp: r.U64()})
	return x
}

// BigPacket draws a well-formed value whose encoding has 65536 octets or more (but fits the
// 16-bit length field): the sizes at which 16-bit byte arithmetic wraps.
func BigPacket(r *core.Rand) rtcp.Packet {
	switch r.Intn(8) {
	case 0: // the largest APP the library accepts: exactly 64 KiB on the wire
		d := r.Bytes(r.Pick(65521, 65522, 65523, 65520, 65519))
		return &rtcp.ApplicationDefined{SubType: uint8(r.Intn(32)), SSRC: r.B32(), Name: "big!", Data: d}
	case 1: // SDES: many long items
		s := &rtcp.SourceDescription{}
		if r.Chance(1, 3) {
			// one chunk that alone has 64 KiB and more (where a 16-bit chunk length wraps), with
			// small chunks around it
			big := rtcp.SourceDescriptionChunk{Source: r.B32()}
			for j := r.Pick(256, 257, 258, 260, 300, 512, 1000); j > 0; j-- {
				big.Items = append(big.Items, rtcp.SourceDescriptionItem{Type: rtcp.SDESType(1 + r.Intn(8)), Text: string(r.Bytes(253 + r.Intn(3)))})
			}
			for i, n, at := 0, r.Intn(4), r.Intn(4); i <= n; i++ {
				if i == at%(n+1) {
					s.Chunks = append(s.Chunks, big)
				} else {
					s.Chunks = append(s.Chunks, rtcp.SourceDescriptionChunk{Source: r.B32(), Items: []rtcp.SourceDescriptionItem{{Type: rtcp.SDESCNAME, Text: TextN(r, r.Intn(12))}}})
				}
			}
			return s
		}
		for i := 0; i < 31; i++ {
			c := rtcp.SourceDescriptionChunk{Source: r.B32()}
			for j := r.Pick(9, 10, 12, 30); j > 0; j-- {
				c.Items = append(c.Items, rtcp.SourceDescriptionItem{Type: rtcp.SDESType(1 + r.Intn(8)), Text: string(r.Bytes(250 + r.Intn(6)))})
			}
			s.Chunks = append(s.Chunks, c)
		}
		return s
	case 2: // XR with one large block, or with very many small ones
		x := &rtcp.ExtendedReport{SenderSSRC: r.B32()}
		if r.Chance(1, 3) {
			return ManyBlocksXR(r)
		}
		if r.Bool() {
			x.Reports = append(x.Reports, &rtcp.UnknownReportBlock{XRHeader: rtcp.XRHeader{BlockType: rtcp.BlockTypeType(8 + r.Intn(200))}, Bytes: r.Bytes(4 * r.Pick(16383, 16384, 20000, 40000, 65530))})
		} else {
			cs := make([]rtcp.Chunk, 2*r.Pick(16381, 16382, 20000, 50000))
			for i := range cs {
				cs[i] = rtcp.Chunk(r.U16())
			}
			switch r.Intn(3) {
			case 0:
				x.Reports = append(x.Reports, &rtcp.LossRLEReportBlock{T: uint8(r.Intn(16)), SSRC: r.B32(), Chunks: cs})
			case 1:
				x.Reports = append(x.Reports, &rtcp.DuplicateRLEReportBlock{T: uint8(r.Intn(16)), SSRC: r.B32(), Chunks: cs})
			default:
				ts := make([]uint32, len(cs)/2)
				for i := range ts {
					ts[i] = r.U32()
				}
				x.Reports = append(x.Reports, &rtcp.PacketReceiptTimesReportBlock{T: uint8(r.Intn(16)), SSRC: r.B32(), BeginSeq: r.U16(), EndSeq: r.U16(), ReceiptTime: ts})
			}
		}
		x.Reports = append(x.Reports, &rtcp.ReceiverReferenceTimeReportBlock{NTPTimestamp: r.U64()})
		return x
	case 3: // CCFB with several maximal blocks
		p := &rtcp.CCFeedbackReport{SenderSSRC: r.B32(), ReportTimestamp: r.B32()}
		nb := r.Pick(2, 3, 4, 4, 5, 7) // 7 maximal blocks is the most that fits the 16-bit length field
		exact := 0                     // when set: the metric blocks of all report blocks total exactly 2^16
		if nb >= 4 && r.Chance(1, 2) {
			exact = 65536
		}
		left := exact
		for i := nb; i > 0; i-- {
			cnt := r.Pick(16384, 16383, 16382)
			if exact > 0 {
				switch {
				case i == 1:
					cnt = left
				case left-cnt > 16384*(i-1):
					cnt = 16384
				case left-cnt < 0:
					cnt = left
				case r.Chance(1, 3) && left > 16384*(i-1)/2:
					cnt = 1 + r.Intn(16384)
					if left-cnt > 16384*(i-1) {
						cnt = left - 16384*(i-1)
					}
				}
				if cnt > 16384 {
					cnt = 16384
				}
				if cnt < 0 {
					cnt = 0
				}
				left -= cnt
			}
			mb := make([]rtcp.CCFeedbackMetricBlock, cnt)
			for j := 0; j < len(mb); j += 1 + r.Intn(97) {
				mb[j] = rtcp.CCFeedbackMetricBlock{Received: true, ECN: rtcp.ECN(r.Intn(4)), ArrivalTimeOffset: r.U16() & 0x1FFF}
			}
			p.ReportBlocks = append(p.ReportBlocks, rtcp.CCFeedbackReportBlock{MediaSSRC: r.B32(), BeginSequence: uint16(r.Intn(40000)), MetricBlocks: mb})
		}
		return p
	case 4: // raw frame
		words := r.Pick(16383, 16384, 16385, 32768, 65535)
		b := make([]byte, 4+4*words)
		copy(b[4:], r.Bytes(512))
		b[0], b[1], b[2], b[3] = 0x80|byte(r.Intn(32)), byte(r.Pick(199, 208, 192)), byte(words>>8), byte(words)
		rp := rtcp.RawPacket(b)
		return &rp
	case 5: // SR / RR with a large profile extension
		e := r.Bytes(4 * r.Pick(16200, 16383, 16384, 30000, 65000))
		if r.Chance(1, 3) {
			// the encoding has exactly this many octets (262144 is the most the length field allows)
			total := r.Pick(262144, 262144, 262140, 131072, 65536, 65540)
			if r.Bool() {
				return &rtcp.SenderReport{SSRC: r.B32(), NTPTime: r.B64(), Reports: []rtcp.ReceptionReport{Report(r)}, ProfileExtensions: r.Bytes(total - 28 - 24)}
			}
			return &rtcp.ReceiverReport{SSRC: r.B32(), Reports: []rtcp.ReceptionReport{Report(r), Report(r)}, ProfileExtensions: r.Bytes(total - 8 - 48)}
		}
		if r.Bool() {
			return &rtcp.SenderReport{SSRC: r.B32(), NTPTime: r.B64(), Reports: []rtcp.ReceptionReport{Report(r)}, ProfileExtensions: e}
		}
		return &rtcp.ReceiverReport{SSRC: r.B32(), Reports: []rtcp.ReceptionReport{Report(r), Report(r)}, ProfileExtensions: e}
	case 6: // FIR with thousands of entries
		p := &rtcp.FullIntraRequest{SenderSSRC: r.B32(), MediaSSRC: r.B32()}
		for i := r.Pick(8190, 8191, 8192, 20000, 32766); i > 0; i-- {
			p.FIR = append(p.FIR, rtcp.FIREntry{SSRC: r.U32(), SequenceNumber: r.U8()})
		}
		return p
	default: // XR with many DLRR sub-blocks and receipt times
		x := &rtcp.ExtendedReport{SenderSSRC: r.B32()}
		rs := make([]rtcp.DLRRReport, r.Pick(5461, 5462, 9000))
		for i := range rs {
			rs[i] = rtcp.DLRRReport{SSRC: r.U32(), LastRR: r.U32(), DLRR: r.U32()}
		}
		ts := make([]uint32, r.Pick(16381, 16382, 20000))
		for i := range ts {
			ts[i] = r.U32()
		}
		x.Reports = []rtcp.ReportBlock{&rtcp.DLRRReportBlock{Reports: rs}, &rtcp.PacketReceiptTimesReportBlock{T: 3, SSRC: r.B32(), ReceiptTime: ts}}
		return x
	}
}

// EditLists changes, in place, the shape of one list of p (append a fresh element, drop the last
// one, swap two, empty it) so that a value that has already been used (marshalled, printed) is
// no longer what it was: anything the library remembered about the old shape is now stale. The
// result stays inside D. It reports whether an edit was made.
func EditLists(r *core.Rand, p rtcp.Packet) bool {
	op := r.Intn(4) // 0 grow, 1 shrink, 2 swap, 3 empty
	switch v := p.(type) {
	case *rtcp.SenderReport:
		v.Reports = editReports(r, v.Reports, op)
		return true
	case *rtcp.ReceiverReport:
		v.Reports = editReports(r, v.Reports, op)
		return true
	case *rtcp.Goodbye:
		switch {
		case op == 0 && len(v.Sources) < 31:
			v.Sources = append(v.Sources[:len(v.Sources):len(v.Sources)], r.B32())
		case op == 1 && len(v.Sources) > 0:
			v.Sources = v.Sources[:len(v.Sources)-1]
		case op == 2 && len(v.Sources) > 1:
			v.Sources[0], v.Sources[len(v.Sources)-1] = v.Sources[len(v.Sources)-1], v.Sources[0]
		default:
			v.Reason = Text(r)
		}
		return true
	case *rtcp.SourceDescription:
		switch {
		case op == 0 && len(v.Chunks) < 31:
			v.Chunks = append(v.Chunks[:len(v.Chunks):len(v.Chunks)], rtcp.SourceDescriptionChunk{Source: r.B32(), Items: []rtcp.SourceDescriptionItem{{Type: rtcp.SDESType(1 + r.Intn(8)), Text: Text(r)}}})
		case op == 1 && len(v.Chunks) > 0:
			v.Chunks = v.Chunks[:len(v.Chunks)-1]
		case len(v.Chunks) > 0:
			c := &v.Chunks[r.Intn(len(v.Chunks))]
			if len(c.Items) > 0 && op == 2 {
				c.Items = c.Items[:len(c.Items)-1]
			} else {
				c.Items = append(c.Items[:len(c.Items):len(c.Items)], rtcp.SourceDescriptionItem{Type: rtcp.SDESType(1 + r.Intn(8)), Text: Text(r)})
			}
		default:
			return false
		}
		return true
	case *rtcp.TransportLayerNack:
		switch {
		case op == 1 && len(v.Nacks) > 1:
			v.Nacks = v.Nacks[:len(v.Nacks)-1]
		case op == 2 && len(v.Nacks) > 1:
			v.Nacks[0], v.Nacks[len(v.Nacks)-1] = v.Nacks[len(v.Nacks)-1], v.Nacks[0]
		case len(v.Nacks) < 200:
			v.Nacks = append(v.Nacks[:len(v.Nacks):len(v.Nacks)], rtcp.NackPair{PacketID: r.B16(), LostPackets: rtcp.PacketBitmap(r.B16())})
		}
		return true
	case *rtcp.SliceLossIndication:
		switch {
		case op == 1 && len(v.SLI) > 1:
			v.SLI = v.SLI[:len(v.SLI)-1]
		case len(v.SLI) < 200:
			v.SLI = append(v.SLI[:len(v.SLI):len(v.SLI)], rtcp.SLIEntry{First: r.U16() & 0x1FFF, Number: r.U16() & 0x1FFF, Picture: r.U8() & 0x3F})
		}
		return true
	case *rtcp.FullIntraRequest:
		switch {
		case op == 1 && len(v.FIR) > 1:
			v.FIR = v.FIR[:len(v.FIR)-1]
		case len(v.FIR) < 200:
			v.FIR = append(v.FIR[:len(v.FIR):len(v.FIR)], rtcp.FIREntry{SSRC: r.B32(), SequenceNumber: r.U8()})
		}
		return true
	case *rtcp.ReceiverEstimatedMaximumBitrate:
		switch {
		case op == 1 && len(v.SSRCs) > 0:
			v.SSRCs = v.SSRCs[:len(v.SSRCs)-1]
		case op == 3:
			v.SSRCs = nil
		case len(v.SSRCs) < 200:
			v.SSRCs = append(v.SSRCs[:len(v.SSRCs):len(v.SSRCs)], r.B32())
		}
		return true
	case *rtcp.ApplicationDefined:
		if op == 1 && len(v.Data) >= 4 {
			v.Data = v.Data[:len(v.Data)-4]
		} else {
			v.Data = append(v.Data[:len(v.Data):len(v.Data)], r.Bytes(4)...)
		}
		return true
	case *rtcp.ExtendedReport:
		switch {
		case op == 0 && len(v.Reports) < 8:
			v.Reports = append(v.Reports[:len(v.Reports):len(v.Reports)], XRBlock(r, XRKind(r.Intn(int(NumXRKinds))), false))
		case op == 1 && len(v.Reports) > 0:
			v.Reports = v.Reports[:len(v.Reports)-1]
		case len(v.Reports) > 0:
			// edit inside one block: its derived header fields (if already filled in) are now stale
			switch b := v.Reports[r.Intn(len(v.Reports))].(type) {
			case *rtcp.LossRLEReportBlock:
				b.Chunks = append(b.Chunks[:len(b.Chunks):len(b.Chunks)], xrChunk(r), xrChunk(r))
				b.T = uint8(r.Intn(16))
			case *rtcp.DuplicateRLEReportBlock:
				if len(b.Chunks) >= 2 {
					b.Chunks = b.Chunks[:len(b.Chunks)-2]
				}
				b.T = uint8(r.Intn(16))
			case *rtcp.PacketReceiptTimesReportBlock:
				b.ReceiptTime = append(b.ReceiptTime[:len(b.ReceiptTime):len(b.ReceiptTime)], r.U32())
				b.T = uint8(r.Intn(16))
			case *rtcp.DLRRReportBlock:
				if op == 2 && len(b.Reports) > 0 {
					b.Reports = b.Reports[:len(b.Reports)-1]
				} else {
					b.Reports = append(b.Reports[:len(b.Reports):len(b.Reports)], rtcp.DLRRReport{SSRC: r.B32(), LastRR: r.U32(), DLRR: r.U32()})
				}
			case *rtcp.StatisticsSummaryReportBlock:
				b.LossReports, b.DuplicateReports, b.JitterReports = r.Bool(), r.Bool(), r.Bool()
				b.TTLorHopLimit = rtcp.TTLorHopLimitType(r.Intn(3))
			case *rtcp.UnknownReportBlock:
				b.Bytes = append(b.Bytes[:len(b.Bytes):len(b.Bytes)], r.Bytes(4)...)
			default:
				return false
			}
		default:
			return false
		}
		return true
	case *rtcp.CCFeedbackReport:
		switch {
		case op == 0 && len(v.ReportBlocks) < 6:
			v.ReportBlocks = append(v.ReportBlocks[:len(v.ReportBlocks):len(v.ReportBlocks)], rtcp.CCFeedbackReportBlock{MediaSSRC: r.B32(), BeginSequence: uint16(r.Intn(30000))})
		case op == 1 && len(v.ReportBlocks) > 0:
			v.ReportBlocks = v.ReportBlocks[:len(v.ReportBlocks)-1]
		default:
			return false
		}
		return true
	case *rtcp.CompoundPacket:
		if _, lastIsSDES := (*v)[len(*v)-1].(*rtcp.SourceDescription); len(*v) > 2 && op == 1 && !lastIsSDES {
			*v = (*v)[:len(*v)-1]
			return true
		}
		for _, m := range *v {
			if _, isSDES := m.(*rtcp.SourceDescription); !isSDES && EditLists(r, m) {
				return true
			}
		}
	}
	return false
}

func editReports(r *core.Rand, rs []rtcp.ReceptionReport, op int) []rtcp.ReceptionReport {
	switch {
	case op == 0 && len(rs) < 31:
		return append(rs[:len(rs):len(rs)], Report(r))
	case op == 1 && len(rs) > 0:
		return rs[:len(rs)-1]
	case op == 2 && len(rs) > 1:
		rs[0], rs[len(rs)-1] = rs[len(rs)-1], rs[0]
		return rs
	case op == 3:
		return nil
	}
	return rs
}
