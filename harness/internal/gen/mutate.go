package gen

import "verifharness/internal/core"

var lenFieldSet = []int{0, 1, 2, 3, 4, 5, 6, 7, 0x3FFF, 0x4000, 0x4001, 0x4002, 0x4003, 0x4004, 0x7FFF, 0x8000, 0x8001, 0xFFFE, 0xFFFF}

var u16Boundary = []int{0, 1, 2, 3, 7, 8, 0x3FFF, 0x4000, 0x7FFF, 0x8000, 0xFFFE, 0xFFFF, 0x1FFF, 0x2000, 13, 14, 15}

// FitLength sets the header length field to match the size when that is possible.
func FitLength(b []byte) {
	if len(b) >= 4 && len(b)%4 == 0 && len(b)/4-1 <= 0xFFFF {
		w := len(b)/4 - 1
		b[2], b[3] = byte(w>>8), byte(w)
	}
}

// Mutate derives a hostile variant of an encoding (never modifies b).
func Mutate(r *core.Rand, b []byte) []byte {
	m := make([]byte, len(b), len(b)+72)
	copy(m, b)
	for n := 1 + r.Intn(3); n > 0; n-- {
		switch r.Intn(14) {
		case 0: // header length field: boundary set and true±1
			if len(m) >= 4 {
				v := lenFieldSet[r.Intn(len(lenFieldSet))]
				if r.Chance(1, 3) {
					v = len(m)/4 - 1 + r.Intn(3) - 1
					if v < 0 {
						v = 0
					}
				}
				m[2], m[3] = byte(v>>8), byte(v)
			}
		case 1: // count / FMT
			if len(m) >= 1 {
				m[0] = m[0]&0xE0 | byte(r.Intn(32))
			}
		case 2: // truncate anywhere
			if len(m) > 0 {
				m = m[:r.Intn(len(m))]
			}
		case 3: // truncate to a word boundary and refit
			if len(m) > 4 {
				m = m[:4*(1+r.Intn(len(m)/4))]
				if r.Bool() {
					FitLength(m)
				}
			}
		case 4: // extend
			m = append(m, r.Bytes(1+r.Intn(64))...)
			if r.Bool() {
				FitLength(m)
			}
		case 5: // bit flip in the first 32 octets
			if len(m) > 0 {
				lim := len(m)
				if lim > 32 {
					lim = 32
				}
				m[r.Intn(lim)] ^= 1 << uint(r.Intn(8))
			}
		case 6: // bit flip anywhere
			if len(m) > 0 {
				m[r.Intn(len(m))] ^= 1 << uint(r.Intn(8))
			}
		case 7: // 16-bit boundary value at an even offset
			if len(m) >= 6 {
				o := 2 * r.Intn(len(m)/2)
				v := u16Boundary[r.Intn(len(u16Boundary))]
				m[o], m[o+1] = byte(v>>8), byte(v)
			}
		case 8: // octet boundary value
			if len(m) > 0 {
				m[r.Intn(len(m))] = byte(r.Pick(0, 1, 0x7F, 0x80, 0xFE, 0xFF))
			}
		case 9: // padding bit / version
			if len(m) > 0 {
				if r.Chance(3, 4) {
					m[0] ^= 0x20
				} else {
					m[0] = m[0]&0x3F | byte(r.Intn(4))<<6
				}
			}
		case 10: // packet type
			if len(m) >= 2 {
				m[1] = byte(r.Pick(200, 201, 202, 203, 204, 205, 206, 207, 208, 199, int(r.U8())))
			}
		case 11: // zero or saturate a run
			if len(m) > 4 {
				o := 4 + r.Intn(len(m)-4)
				l := 1 + r.Intn(8)
				fill := byte(r.Pick(0, 0xFF))
				for i := o; i < o+l && i < len(m); i++ {
					m[i] = fill
				}
			}
		case 12: // duplicate a slice of itself at the end and refit
			if len(m) >= 8 {
				o := 4 * r.Intn(len(m)/4)
				m = append(m, m[o:]...)
				FitLength(m)
			}
		default: // refit only
			FitLength(m)
		}
	}
	return m
}
