package core

// PropDef describes one property check.
type PropDef struct {
	ID string
	// Run is the workload executed by the plain-build workers.
	Run func(c *Ctx)
	// RunRace, if set, is executed by workers of the -race build (race detector + checkptr).
	RunRace func(c *Ctx)
	// RaceProcs is the number of race workers run in parallel (default 4).
	RaceProcs int
	// RaceShards is the number of shards of the race workload (default 8).
	RaceShards int
	// Rule explains generation and non-triviality for the evidence file.
	Rule string
	// Assumptions are listed in the evidence file.
	Assumptions []string
	// MinDistinct: fewer distinct non-trivial cases than this is inconclusive.
	MinDistinctQuick, MinDistinctThorough uint64
	// Technique is a short name for the evidence file.
	Technique string
	// FuzzTarget, if set, names a native fuzz target (harness/fuzz) run in the thorough tier
	// for FuzzExecs executions as a second engine over the same oracle functions.
	FuzzTarget string
	FuzzExecs  uint64
}

var registry = map[string]*PropDef{}

// Register adds a property definition.
func Register(p *PropDef) { registry[p.ID] = p }

// Lookup finds one.
func Lookup(id string) *PropDef { return registry[id] }

// IDs lists all registered ids.
func IDs() []string {
	out := make([]string, 0, len(registry))
	for id := range registry {
		out = append(out, id)
	}
	return out
}
