package core

import (
	"strconv"
	"encoding/binary"
	"fmt"
	"os"
	"runtime"
	"runtime/debug"
	"sort"
	"strings"
	"sync/atomic"
	"syscall"
	"time"
)

// Tier of a run.
type Tier string

const (
	Quick    Tier = "quick"
	Thorough Tier = "thorough"
)

// W carries the details of one observation (witness or sample).
type W map[string]any

// Witness is one violating (or known-finding) case, sufficient to re-execute it.
type Witness struct {
	Property string `json:"property"`
	Tier     Tier   `json:"tier"`
	Seed     uint64 `json:"seed"`
	Section  string `json:"section"`
	Index    uint64 `json:"index"`
	Aspect   string `json:"aspect"`
	Detail   W      `json:"detail,omitempty"`
	KF       string `json:"known_finding,omitempty"`
	Race     bool   `json:"race_build,omitempty"`
}

// Sample is an explored case written to the evidence file.
type Sample struct {
	Section string `json:"section"`
	Index   uint64 `json:"index"`
	Kind    string `json:"kind"`
	Case    any    `json:"case"`
}

// KnownWitnessResult reports the re-execution of the stored witness of one known finding.
type KnownWitnessResult struct {
	ID         string `json:"id"`
	StillFails bool   `json:"still_fails"`
	What       string `json:"what"`
}

// ExhaustiveDomain names a finite domain this run enumerated completely.
type ExhaustiveDomain struct {
	Name string `json:"name"`
	Size uint64 `json:"size"`
}

// Result is what one worker (one shard) reports to the parent.
type Result struct {
	Property        string               `json:"property"`
	Shard           int                  `json:"shard"`
	NShards         int                  `json:"nshards"`
	Evaluations     uint64               `json:"evaluations"`
	DistinctByCons  uint64               `json:"distinct_by_construction"`
	DigestFile      string               `json:"digest_file,omitempty"`
	DigestOverflow  uint64               `json:"digest_overflow"`
	Samples         []Sample             `json:"samples,omitempty"`
	Hist            map[string]uint64    `json:"hist,omitempty"`
	Max             map[string]float64   `json:"max,omitempty"`
	MaxAt           map[string]string    `json:"max_at,omitempty"`
	Violations      []Witness            `json:"violations,omitempty"`
	ViolationCount  uint64               `json:"violation_count"`
	Known           map[string]uint64    `json:"known,omitempty"`
	KnownExample    map[string]Witness   `json:"known_example,omitempty"`
	KnownWitnesses  []KnownWitnessResult `json:"known_witnesses,omitempty"`
	Exhaustive      []ExhaustiveDomain   `json:"exhaustive,omitempty"`
	SectionCases    map[string]uint64    `json:"section_cases,omitempty"`
	HarnessErrors   []string             `json:"harness_errors,omitempty"`
	Inconclusive    []string             `json:"inconclusive,omitempty"`
	Notes           []string             `json:"notes,omitempty"`
	CPUSeconds      float64              `json:"cpu_s"`
	WallSeconds     float64              `json:"wall_s"`
	RaceBuild       bool                 `json:"race_build"`
	ExtraInt        map[string]uint64    `json:"extra_int,omitempty"`
	sampleCount     map[string]int
	violPerAspect   map[string]int
	digests         map[uint64]struct{}
	knownPerAspect  map[string]int
	KnownAspectHist map[string]uint64 `json:"known_aspect_hist,omitempty"`
}

// ReplaySpec restricts a run to one case.
type ReplaySpec struct {
	Section string
	Index   uint64
}

// Ctx is the per-worker context handed to a property's workload.
type Ctx struct {
	Prop    string
	Tier    Tier
	Seed    uint64
	Shard   int
	NShards int
	Replay  *ReplaySpec
	KF      *KFSet
	Race    bool // built with -race
	Res     *Result

	// watchdog state (read by the watchdog goroutine)
	seq        atomic.Uint64
	curIdx     atomic.Uint64
	curSection atomic.Value // string
	wdOff      atomic.Bool
	traceF     *os.File
	WorkDir    string
	// Only lists sections if non-nil (used by `list`).
	OnlySections map[string]bool
}

const (
	maxDigestsPerWorker = 1 << 21
	maxSamplesPerKind   = 2
	maxViolPerAspect    = 3
	maxViolTotal        = 40
)

// NewCtx builds a context with an empty result.
func NewCtx(prop string, tier Tier, seed uint64, shard, nshards int, kf *KFSet) *Ctx {
	c := &Ctx{Prop: prop, Tier: tier, Seed: seed, Shard: shard, NShards: nshards, KF: kf}
	c.Res = &Result{Property: prop, Shard: shard, NShards: nshards,
		Hist: map[string]uint64{}, Max: map[string]float64{}, MaxAt: map[string]string{},
		Known: map[string]uint64{}, KnownExample: map[string]Witness{},
		SectionCases: map[string]uint64{}, ExtraInt: map[string]uint64{},
		sampleCount: map[string]int{}, violPerAspect: map[string]int{},
		digests: map[uint64]struct{}{}, knownPerAspect: map[string]int{},
		KnownAspectHist: map[string]uint64{}}
	c.curSection.Store("")
	return c
}

// Thorough reports whether this is the thorough tier.
func (c *Ctx) Thorough() bool { return c.Tier == Thorough }

// N picks a case count by tier.
func (c *Ctx) N(quick, thorough uint64) uint64 {
	if c.Tier == Thorough {
		return thorough
	}
	return quick
}

// Case is one generated / enumerated case of a section.
type Case struct {
	C       *Ctx
	R       *Rand
	Section string
	Idx     uint64
}

// Section runs f on every case index of [0,n) that belongs to this shard. Each case has its
// own PRNG stream so that it can be re-executed alone.
func (c *Ctx) Section(name string, n uint64, f func(cs *Case)) {
	if c.Replay != nil {
		if c.Replay.Section != name {
			return
		}
		c.runCase(name, c.Replay.Index, f)
		return
	}
	for idx := uint64(c.Shard); idx < n; idx += uint64(c.NShards) {
		c.runCase(name, idx, f)
	}
}

// Once runs f once (on shard 0 only), as section `name` with index 0.
func (c *Ctx) Once(name string, f func(cs *Case)) {
	if c.Replay != nil {
		if c.Replay.Section == name {
			c.runCase(name, 0, f)
		}
		return
	}
	if c.Shard == 0 {
		c.runCase(name, 0, f)
	}
}

func (c *Ctx) runCase(name string, idx uint64, f func(cs *Case)) {
	cs := &Case{C: c, R: CaseRand(c.Seed, c.Prop, name, idx), Section: name, Idx: idx}
	c.curSection.Store(name)
	c.curIdx.Store(idx)
	c.seq.Add(1)
	if c.traceF != nil {
		var rec [80]byte
		binary.LittleEndian.PutUint64(rec[0:], idx)
		copy(rec[8:], name)
		_, _ = c.traceF.WriteAt(rec[:], 0)
	}
	c.Res.SectionCases[name]++
	defer func() {
		if r := recover(); r != nil {
			st := string(debug.Stack())
			if libraryPanic(st) {
				cs.Fail("panic/unguarded", W{"panic": fmt.Sprint(r), "stack": trimStack(st)})
				return
			}
			msg := fmt.Sprintf("harness panic in %s[%d]: %v\n%s", name, idx, r, trimStack(st))
			if len(c.Res.HarnessErrors) < 5 {
				c.Res.HarnessErrors = append(c.Res.HarnessErrors, msg)
			}
		}
	}()
	f(cs)
}

// libraryPanic reports whether the innermost non-runtime frame of a panic stack lies in the
// package under test.
func libraryPanic(stack string) bool {
	lines := strings.Split(stack, "\n")
	seenPanic := false
	for _, l := range lines {
		if strings.HasPrefix(l, "panic(") {
			seenPanic = true
			continue
		}
		if !seenPanic || strings.HasPrefix(l, "\t") || l == "" {
			continue
		}
		if strings.HasPrefix(l, "runtime.") || strings.HasPrefix(l, "runtime/") ||
			strings.HasPrefix(l, "reflect.") || strings.HasPrefix(l, "encoding/binary.") ||
			strings.HasPrefix(l, "fmt.") || strings.HasPrefix(l, "strings.") || strings.HasPrefix(l, "internal/") {
			continue
		}
		return strings.HasPrefix(l, "github.com/pion/rtcp.")
	}
	return false
}

func trimStack(s string) string {
	if len(s) > 3000 {
		return s[:3000] + "\n…"
	}
	return s
}

// Eval counts n judged library calls / cases.
func (cs *Case) Eval(n uint64) { cs.C.Res.Evaluations += n }

// Distinct records a non-trivial case by digest (conservative cap per worker).
func (cs *Case) Distinct(d uint64) {
	r := cs.C.Res
	if len(r.digests) >= maxDigestsPerWorker {
		if _, ok := r.digests[d]; !ok {
			r.DigestOverflow++
		}
		return
	}
	r.digests[d] = struct{}{}
}

// DistinctN counts n non-trivial cases that are distinct by construction (enumerations).
func (cs *Case) DistinctN(n uint64) { cs.C.Res.DistinctByCons += n }

// Count increments a histogram class.
func (cs *Case) Count(class string) { cs.C.Res.Hist[class]++ }

// CountN adds n to a histogram class.
func (cs *Case) CountN(class string, n uint64) { cs.C.Res.Hist[class] += n }

// Max tracks the maximum of a measured quantity.
func (cs *Case) Max(name string, v float64, at string) {
	if cur, ok := cs.C.Res.Max[name]; !ok || v > cur {
		cs.C.Res.Max[name] = v
		cs.C.Res.MaxAt[name] = at
	}
}

// Sample records up to a few cases per kind for the evidence file.
func (cs *Case) Sample(kind string, f func() any) {
	r := cs.C.Res
	if r.sampleCount[kind] >= maxSamplesPerKind {
		return
	}
	r.sampleCount[kind]++
	r.Samples = append(r.Samples, Sample{Section: cs.Section, Index: cs.Idx, Kind: kind, Case: f()})
}

// Exhaustive declares a completely enumerated domain (call from shard-independent code: the
// parent de-duplicates by name).
func (c *Ctx) Exhaustive(name string, size uint64) {
	c.Res.Exhaustive = append(c.Res.Exhaustive, ExhaustiveDomain{name, size})
}

// Fail reports that `aspect` failed on this case. If one of the given known-finding ids is
// listed (as open finding, for this property) in KNOWN_FINDINGS.txt the case is attributed to
// it, otherwise it is a violation.
func (cs *Case) Fail(aspect string, detail W, kfIDs ...string) {
	c := cs.C
	w := Witness{Property: c.Prop, Tier: c.Tier, Seed: c.Seed, Section: cs.Section, Index: cs.Idx,
		Aspect: aspect, Detail: detail, Race: c.Race}
	for _, id := range kfIDs {
		if c.KF != nil && c.KF.Open(c.Prop, id, aspect) {
			c.Res.Known[id]++
			c.Res.KnownAspectHist[id+" "+aspect]++
			if _, ok := c.Res.KnownExample[id]; !ok {
				w.KF = id
				c.Res.KnownExample[id] = w
			}
			return
		}
	}
	c.Res.ViolationCount++
	c.Res.Hist["VIOLATION "+aspect]++
	if c.Res.violPerAspect[aspect] >= maxViolPerAspect || len(c.Res.Violations) >= maxViolTotal {
		return
	}
	c.Res.violPerAspect[aspect]++
	c.Res.Violations = append(c.Res.Violations, w)
}

// Check is shorthand: if !ok, Fail.
func (cs *Case) Check(ok bool, aspect string, detail func() W, kfIDs ...string) bool {
	if !ok {
		cs.Fail(aspect, detail(), kfIDs...)
	}
	return ok
}

// KnownWitness re-executes the stored witness of an open finding (only on shard 0, and only
// when the finding is listed). f reports whether the defect is still there.
func (c *Ctx) KnownWitness(id string, f func() (stillFails bool, what string)) {
	if c.Shard != 0 || c.Replay != nil || c.KF == nil || !c.KF.Open(c.Prop, id, "") {
		return
	}
	still, what := false, ""
	func() {
		defer func() {
			if r := recover(); r != nil {
				still, what = true, fmt.Sprintf("panic: %v", r)
			}
		}()
		still, what = f()
	}()
	c.Res.KnownWitnesses = append(c.Res.KnownWitnesses, KnownWitnessResult{ID: id, StillFails: still, What: what})
}

// Inconclusive records a reason why this run cannot be counted as "held".
func (c *Ctx) Inconclusive(msg string) {
	c.Res.Inconclusive = append(c.Res.Inconclusive, msg)
}

// Note adds a free-text note to the result.
func (c *Ctx) Note(msg string) { c.Res.Notes = append(c.Res.Notes, msg) }

// WatchdogOff disables the in-flight watchdog (concurrent sections of C18, whose CPU time is
// multiplied by the goroutine count).
func (c *Ctx) WatchdogOff(off bool) { c.wdOff.Store(off) }

// Finish freezes the digest set and timings.
func (c *Ctx) Finish(start time.Time, digestPath string) error {
	r := c.Res
	r.WallSeconds = time.Since(start).Seconds()
	r.CPUSeconds = cpuSeconds()
	r.RaceBuild = c.Race
	if digestPath != "" && len(r.digests) > 0 {
		ds := make([]uint64, 0, len(r.digests))
		for d := range r.digests {
			ds = append(ds, d)
		}
		sort.Slice(ds, func(i, j int) bool { return ds[i] < ds[j] })
		buf := make([]byte, 8*len(ds))
		for i, d := range ds {
			binary.LittleEndian.PutUint64(buf[8*i:], d)
		}
		if err := os.WriteFile(digestPath, buf, 0o644); err != nil {
			return err
		}
		r.DigestFile = digestPath
	}
	return nil
}

// LocalDistinct returns the number of digests held by this worker.
func (c *Ctx) LocalDistinct() int { return len(c.Res.digests) }

func cpuSeconds() float64 {
	var ru syscall.Rusage
	if err := syscall.Getrusage(syscall.RUSAGE_SELF, &ru); err != nil {
		return 0
	}
	return float64(ru.Utime.Sec) + float64(ru.Utime.Usec)/1e6 + float64(ru.Stime.Sec) + float64(ru.Stime.Usec)/1e6
}

// Exit codes of a worker.
const (
	ExitOK       = 0
	ExitSuspect  = 3 // watchdog: a case has been in flight for > suspectCPU seconds of CPU
	ExitHang     = 4 // single-case mode: > confirmCPU seconds of CPU inside one case
	ExitAllocCap = 5 // heap above the in-flight cap while one case is in flight
)

// StartWatchdog samples the case in flight. It never takes a lock shared with the workload.
// singleCase: replay mode (confirm a suspicion): the limit is confirmCPU and the exit code is
// ExitHang.
func (c *Ctx) StartWatchdog(suspectFile string, singleCase, patient bool) {
	suspectCPU, confirmCPU := 10.0, 20.0
	if v, err := strconv.ParseFloat(os.Getenv("VERIF_TEST_SUSPECT_CPU"), 64); err == nil && v > 0 {
		suspectCPU = v // self-test of the suspicion / confirmation / patient re-run path only
	}
	const heapCap = 3 << 30
	go func() {
		lastSeq := c.seq.Load()
		lastCPU := cpuSeconds()
		var ms runtime.MemStats
		tick := 0
		for {
			time.Sleep(50 * time.Millisecond)
			tick++
			s := c.seq.Load()
			now := cpuSeconds()
			if s != lastSeq || c.wdOff.Load() {
				// a new case, or a section that switched the watchdog off (its CPU time is
				// multiplied by its goroutines): restart the measurement from here, so that CPU
				// time spent while switched off is never held against what follows
				lastSeq, lastCPU = s, now
			} else {
				limit := suspectCPU
				code := ExitSuspect
				if singleCase {
					limit, code = confirmCPU, ExitHang
				} else if patient {
					limit = confirmCPU // second attempt at a shard after an unconfirmed suspicion
				}
				if now-lastCPU > limit {
					sec, _ := c.curSection.Load().(string)
					_ = os.WriteFile(suspectFile, []byte(fmt.Sprintf("%s %d cpu=%.1f\n", sec, c.curIdx.Load(), now-lastCPU)), 0o644)
					os.Exit(code)
				}
			}
			if tick%4 == 0 {
				runtime.ReadMemStats(&ms)
				if ms.HeapAlloc > heapCap {
					sec, _ := c.curSection.Load().(string)
					_ = os.WriteFile(suspectFile, []byte(fmt.Sprintf("%s %d heap=%d\n", sec, c.curIdx.Load(), ms.HeapAlloc)), 0o644)
					os.Exit(ExitAllocCap)
				}
			}
		}
	}()
}

// EnableTrace makes every case write (section, index) to path before it runs.
func (c *Ctx) EnableTrace(path string) error {
	f, err := os.OpenFile(path, os.O_CREATE|os.O_RDWR|os.O_TRUNC, 0o644)
	if err != nil {
		return err
	}
	c.traceF = f
	return nil
}

// ReadTrace decodes a trace file.
func ReadTrace(path string) (section string, idx uint64, err error) {
	b, err := os.ReadFile(path)
	if err != nil {
		return "", 0, err
	}
	if len(b) < 80 {
		return "", 0, fmt.Errorf("short trace file")
	}
	idx = binary.LittleEndian.Uint64(b)
	section = strings.TrimRight(string(b[8:80]), "\x00")
	return section, idx, nil
}

// Guard runs f and reports a panic instead of propagating it.
func Guard(f func()) (panicked bool, val any, stack string) {
	defer func() {
		if r := recover(); r != nil {
			panicked, val, stack = true, r, trimStack(string(debug.Stack()))
		}
	}()
	f()
	return false, nil, ""
}
