package core

import (
	"bufio"
	"os"
	"strings"
)

// KFEntry is one line of KNOWN_FINDINGS.txt.
//
//	finding: property=<id> kf=<KFn> aspect=<glob[,glob…]> :: <what fails>
//	fixed: property=<id> <commit> <what failed>
//
// The file is read-only at run time. A `finding:` line lets failures of the named aspects on
// the input class that the check's code associates with <KFn> be attributed to that finding
// instead of being reported as a violation. `fixed:` lines suppress nothing.
type KFEntry struct {
	Fixed    bool
	Property string
	ID       string
	Aspects  []string
	What     string
	Raw      string
}

// KFSet is the parsed file.
type KFSet struct{ Entries []KFEntry }

// LoadKF parses path; a missing file is an empty set.
func LoadKF(path string) (*KFSet, error) {
	f, err := os.Open(path)
	if err != nil {
		if os.IsNotExist(err) {
			return &KFSet{}, nil
		}
		return nil, err
	}
	defer f.Close()
	s := &KFSet{}
	sc := bufio.NewScanner(f)
	sc.Buffer(make([]byte, 1<<20), 1<<20)
	for sc.Scan() {
		line := strings.TrimSpace(sc.Text())
		if line == "" || strings.HasPrefix(line, "#") {
			continue
		}
		var e KFEntry
		e.Raw = line
		switch {
		case strings.HasPrefix(line, "finding:"):
			rest := strings.TrimSpace(strings.TrimPrefix(line, "finding:"))
			head := rest
			if i := strings.Index(rest, "::"); i >= 0 {
				head, e.What = strings.TrimSpace(rest[:i]), strings.TrimSpace(rest[i+2:])
			}
			for _, tok := range strings.Fields(head) {
				switch {
				case strings.HasPrefix(tok, "property="):
					e.Property = strings.TrimPrefix(tok, "property=")
				case strings.HasPrefix(tok, "kf="):
					e.ID = strings.TrimPrefix(tok, "kf=")
				case strings.HasPrefix(tok, "aspect="):
					e.Aspects = strings.Split(strings.TrimPrefix(tok, "aspect="), ",")
				}
			}
		case strings.HasPrefix(line, "fixed:"):
			e.Fixed = true
			rest := strings.Fields(strings.TrimSpace(strings.TrimPrefix(line, "fixed:")))
			for _, tok := range rest {
				if strings.HasPrefix(tok, "property=") {
					e.Property = strings.TrimPrefix(tok, "property=")
				}
			}
			e.What = strings.Join(rest, " ")
		default:
			continue
		}
		s.Entries = append(s.Entries, e)
	}
	return s, sc.Err()
}

func globMatch(pat, s string) bool {
	if strings.HasSuffix(pat, "*") {
		return strings.HasPrefix(s, strings.TrimSuffix(pat, "*"))
	}
	return pat == s
}

// Open reports whether (property, id) is listed as an open finding whose aspect patterns
// cover aspect ("" = any).
func (s *KFSet) Open(prop, id, aspect string) bool {
	for _, e := range s.Entries {
		if e.Fixed || e.Property != prop || e.ID != id {
			continue
		}
		if aspect == "" {
			return true
		}
		for _, p := range e.Aspects {
			if globMatch(p, aspect) {
				return true
			}
		}
	}
	return false
}

// What returns the description of an open finding.
func (s *KFSet) What(prop, id string) string {
	for _, e := range s.Entries {
		if !e.Fixed && e.Property == prop && e.ID == id {
			return e.What
		}
	}
	return ""
}

// OpenIDs lists the open finding ids of a property.
func (s *KFSet) OpenIDs(prop string) []string {
	var out []string
	seen := map[string]bool{}
	for _, e := range s.Entries {
		if !e.Fixed && e.Property == prop && !seen[e.ID] {
			seen[e.ID] = true
			out = append(out, e.ID)
		}
	}
	return out
}
