// Package core holds the run-time monitoring framework shared by all property checks:
// deterministic PRNG, sharded sections of cases, witness/replay files, known-finding
// attribution, evidence accounting and the worker watchdog.
package core

import "math"

// Rand is a splitmix64 stream. One stream per case, derived from (seed, property, section,
// index) only — never from time — so that any case can be regenerated alone for replay.
type Rand struct{ s uint64 }

func mix64(z uint64) uint64 {
	z = (z ^ (z >> 30)) * 0xbf58476d1ce4e5b9
	z = (z ^ (z >> 27)) * 0x94d049bb133111eb
	return z ^ (z >> 31)
}

// NewRand returns a stream seeded by s.
func NewRand(s uint64) *Rand { return &Rand{s: s} }

// CaseRand derives the stream of one case.
func CaseRand(seed uint64, prop, section string, idx uint64) *Rand {
	h := Digest([]byte(prop), []byte{0}, []byte(section))
	return &Rand{s: mix64(seed*0x9e3779b97f4a7c15^h) ^ mix64(idx+0x632be59bd9b4e019)}
}

// U64 returns the next 64 random bits.
func (r *Rand) U64() uint64 {
	r.s += 0x9e3779b97f4a7c15
	return mix64(r.s)
}

// U32 returns 32 random bits.
func (r *Rand) U32() uint32 { return uint32(r.U64() >> 32) }

// U16 returns 16 random bits.
func (r *Rand) U16() uint16 { return uint16(r.U64() >> 48) }

// U8 returns 8 random bits.
func (r *Rand) U8() uint8 { return uint8(r.U64() >> 56) }

// Intn returns a value in [0,n). n must be > 0.
func (r *Rand) Intn(n int) int {
	if n <= 0 {
		panic("core.Rand.Intn: n <= 0")
	}
	return int(r.U64() % uint64(n))
}

// Range returns a value in [lo,hi].
func (r *Rand) Range(lo, hi int) int { return lo + r.Intn(hi-lo+1) }

// Bool returns a fair coin.
func (r *Rand) Bool() bool { return r.U64()&1 == 1 }

// Chance returns true with probability num/den.
func (r *Rand) Chance(num, den int) bool { return r.Intn(den) < num }

// Bytes returns n random octets.
func (r *Rand) Bytes(n int) []byte {
	b := make([]byte, n)
	for i := 0; i < n; i += 8 {
		v := r.U64()
		for j := 0; j < 8 && i+j < n; j++ {
			b[i+j] = byte(v >> (8 * j))
		}
	}
	return b
}

// Pick returns one of the given ints.
func (r *Rand) Pick(v ...int) int { return v[r.Intn(len(v))] }

// B32 is a boundary-biased 32-bit value.
func (r *Rand) B32() uint32 {
	switch r.Intn(10) {
	case 0:
		return 0
	case 1:
		return 1
	case 2:
		return math.MaxUint32
	case 3:
		return math.MaxUint32 - 1
	case 4:
		return 0x80000000
	case 5:
		return uint32(1) << uint(r.Intn(32))
	case 6:
		if r.Intn(3) == 0 {
			return MagicWords[r.Intn(len(MagicWords))]
		}
		return r.U32()
	default:
		return r.U32()
	}
}

// MagicWords are 32-bit values that look like something a decoder searches for: the REMB
// identifier and header words of every packet type. As field values (an SSRC that happens to be
// "REMB") they must be as inert as any other number.
var MagicWords = []uint32{0x52454D42, 0x80C80006, 0x81C90007, 0x81CA0002, 0x81CB0001, 0x80CC0002, 0x81CD0003, 0x8FCD0005, 0x8BCD0003, 0x81CE0002, 0x82CE0003, 0x84CE0004, 0x8FCE0004, 0x80CF0002}

// B16 is a boundary-biased 16-bit value.
func (r *Rand) B16() uint16 {
	switch r.Intn(10) {
	case 0:
		return 0
	case 1:
		return 1
	case 2:
		return math.MaxUint16
	case 3:
		return math.MaxUint16 - 1
	case 4:
		return 0x8000
	case 5:
		return uint16(1) << uint(r.Intn(16))
	default:
		return r.U16()
	}
}

// B8 is a boundary-biased 8-bit value.
func (r *Rand) B8() uint8 {
	switch r.Intn(8) {
	case 0:
		return 0
	case 1:
		return 1
	case 2:
		return 255
	case 3:
		return 254
	case 4:
		return 0x80
	default:
		return r.U8()
	}
}

// B64 is a boundary-biased 64-bit value.
func (r *Rand) B64() uint64 {
	switch r.Intn(10) {
	case 0:
		return 0
	case 1:
		return 1
	case 2:
		return math.MaxUint64
	case 3:
		return 1 << 63
	case 4:
		return uint64(math.MaxUint32) + uint64(r.Intn(3)) - 1
	default:
		return r.U64()
	}
}

// Digest is a 64-bit FNV-1a over the parts followed by a splitmix finaliser.
func Digest(parts ...[]byte) uint64 {
	h := uint64(0xcbf29ce484222325)
	for _, p := range parts {
		for _, b := range p {
			h ^= uint64(b)
			h *= 0x100000001b3
		}
		h ^= 0xff
		h *= 0x100000001b3
	}
	return mix64(h)
}

// DigestStr digests strings.
func DigestStr(parts ...string) uint64 {
	h := uint64(0xcbf29ce484222325)
	for _, p := range parts {
		for i := 0; i < len(p); i++ {
			h ^= uint64(p[i])
			h *= 0x100000001b3
		}
		h ^= 0xff
		h *= 0x100000001b3
	}
	return mix64(h)
}
