package props

import (
	"fmt"

	"github.com/pion/rtcp"

	"verifharness/internal/core"
	"verifharness/internal/gen"
	"verifharness/internal/mon"
	"verifharness/internal/ref"
)

func init() {
	core.Register(&core.PropDef{
		ID:         "C01",
		Run:        runC01,
		RunRace:    runC01Race,
		RaceShards: 8,
		RaceProcs:  8,
		Technique:  "runtime panic / allocation / CPU-time monitors around every decode entry point on systematic, mutated and hostile byte strings; child-process isolation; checkptr via the -race build",
		Rule: "24 decode entry points (rtcp.Unmarshal, 16 packet decoders, 7 sub-structure decoders) x (a) the systematic grid length 0..64 x count 0..31 x length-field set x body pattern, (b) mutants of reference encodings of every type fed to the datagram decoder, the type's own decoder and every other decoder, " +
			"(c) hostile shapes (count-driven allocation, 64 KiB many-frame datagrams, 256 KiB inputs); non-trivial = the input starts with a version-2 header of at least 4 octets; distinct by digest of (entry point, octets)",
		Assumptions: []string{
			"allocation bound per call: 8 MiB + 128 x len(input) (calibrated: worst legitimate fixed part 3.8 MiB, worst slope 77x); measured exactly with runtime.ReadMemStats in single-goroutine workers of the plain build",
			"non-termination: a case in flight for more than 10 CPU-seconds is re-run alone and is a violation only if it then burns more than 20 CPU-seconds; wall-clock time is never used for a verdict",
			"a clean checkptr run covers only the executions driven",
		},
		FuzzTarget: "FuzzDecodeAll", FuzzExecs: 6000000,
		MinDistinctQuick: 500000, MinDistinctThorough: 20000000,
	})
}

type entryPoint struct {
	name string
	kind gen.Kind // for packet decoders, else -1
	pt   uint8    // header PT used by the systematic grid (0: no header)
	cnt  int      // fixed count/FMT for feedback types (-1: all 32)
	call func(b []byte) (any, error)
}

var entryPoints = buildEntryPoints()

func buildEntryPoints() []entryPoint {
	eps := []entryPoint{{name: "rtcp.Unmarshal", kind: -1, pt: 0, cnt: -1, call: func(b []byte) (any, error) {
		ps, err := rtcp.Unmarshal(b)
		if err == nil {
			if len(ps) == 0 {
				return ps, fmt.Errorf("VERIF: nil error with no packets")
			}
			for _, p := range ps {
				if p == nil {
					return ps, fmt.Errorf("VERIF: nil packet in result")
				}
			}
		} else if ps != nil {
			return ps, fmt.Errorf("VERIF: error %q together with %d packets", err, len(ps))
		}
		return ps, err
	}}}
	ptOf := map[gen.Kind][2]int{gen.SR: {200, -1}, gen.RR: {201, -1}, gen.SDES: {202, -1}, gen.BYE: {203, -1}, gen.APP: {204, -1},
		gen.NACK: {205, 1}, gen.RRR: {205, 5}, gen.TWCC: {205, 15}, gen.CCFB: {205, 11}, gen.PLI: {206, 1}, gen.SLI: {205, 2}, gen.REMB: {206, 15}, gen.FIR: {206, 4},
		gen.XR: {207, -1}, gen.Raw: {199, -1}, gen.Compound: {201, -1}}
	for k := gen.Kind(0); k < gen.NumKinds; k++ {
		k := k
		eps = append(eps, entryPoint{name: "(*" + k.String() + ").Unmarshal", kind: k, pt: uint8(ptOf[k][0]), cnt: ptOf[k][1], call: func(b []byte) (any, error) {
			p := gen.New(k)
			err := p.Unmarshal(b)
			return p, err
		}})
	}
	sub := func(name string, f func(b []byte) (any, error)) {
		eps = append(eps, entryPoint{name: name, kind: -1, pt: 0, cnt: -1, call: f})
	}
	sub("(*Header).Unmarshal", func(b []byte) (any, error) { var v rtcp.Header; err := v.Unmarshal(b); return v, err })
	sub("(*ReceptionReport).Unmarshal", func(b []byte) (any, error) { var v rtcp.ReceptionReport; err := v.Unmarshal(b); return v, err })
	sub("(*SourceDescriptionChunk).Unmarshal", func(b []byte) (any, error) { var v rtcp.SourceDescriptionChunk; err := v.Unmarshal(b); return v, err })
	sub("(*SourceDescriptionItem).Unmarshal", func(b []byte) (any, error) { var v rtcp.SourceDescriptionItem; err := v.Unmarshal(b); return v, err })
	sub("(*RunLengthChunk).Unmarshal", func(b []byte) (any, error) { var v rtcp.RunLengthChunk; err := v.Unmarshal(b); return v, err })
	sub("(*StatusVectorChunk).Unmarshal", func(b []byte) (any, error) { var v rtcp.StatusVectorChunk; err := v.Unmarshal(b); return v, err })
	sub("(*RecvDelta).Unmarshal", func(b []byte) (any, error) { var v rtcp.RecvDelta; err := v.Unmarshal(b); return v, err })
	return eps
}

type c01Item struct {
	ep int
	in []byte
}

const c01AllocFixed, c01AllocSlope = 8 << 20, 128

// c01Run executes the items under the panic guard; allocation is metered around the whole
// batch and, if the batch exceeds the fixed bound (or in replay mode), call by call.
func c01Run(cs *core.Case, items []c01Item) {
	c := cs.C
	meter := !c.Race
	var a0 uint64
	if meter {
		a0 = mon.TotalAlloc()
	}
	// receivers that already hold the result of an earlier successful decode of this batch, per
	// packet decoder: the statement quantifies over byte strings and entry points, not only over
	// fresh receivers
	var used [1 + int(gen.NumKinds)]rtcp.Packet
	for i := range items {
		it := &items[i]
		ep := &entryPoints[it.ep]
		var err error
		var fresh any
		panicked, val, stack := core.Guard(func() { fresh, err = ep.call(it.in) })
		if !panicked && ep.kind >= 0 && it.ep < len(used) && len(it.in) <= 4096 {
			if u := used[it.ep]; u != nil && i%3 == 0 {
				var uerr error
				if p2, v2, st2 := core.Guard(func() { uerr = u.Unmarshal(it.in) }); p2 {
					cs.Fail("panic/used-receiver/"+ep.name, core.W{"entry_point": ep.name, "input_hex": mon.Hex(it.in, 512), "input_len": len(it.in),
						"receiver_before_this_call": "the value left by earlier successful decodes of this batch", "panic": fmt.Sprint(v2), "stack": st2})
					used[it.ep] = nil
				} else {
					c.Res.Hist["used-receiver-decodes"]++
					if uerr != nil {
						used[it.ep] = nil // a failed decode leaves an arbitrary mix: start over
					}
				}
			}
			if err == nil && used[it.ep] == nil {
				if p, ok := fresh.(rtcp.Packet); ok {
					used[it.ep] = p
				}
			}
		}
		if panicked {
			cs.Fail("panic/"+ep.name, core.W{"entry_point": ep.name, "input_hex": mon.Hex(it.in, 512), "input_len": len(it.in), "panic": fmt.Sprint(val), "stack": stack})
			continue
		}
		if err != nil && len(err.Error()) > 6 && err.Error()[:6] == "VERIF:" {
			cs.Fail("result-shape/"+ep.name, core.W{"entry_point": ep.name, "input_hex": mon.Hex(it.in, 512), "problem": err.Error()})
		}
		if err == nil {
			c.Res.Hist["accepted/"+ep.name]++
		} else {
			c.Res.Hist["rejected/"+ep.name]++
		}
		if len(it.in) >= 4 && it.in[0]>>6 == 2 {
			cs.Distinct(core.Digest([]byte{byte(it.ep)}, it.in))
		}
	}
	cs.Eval(uint64(len(items)))
	if !meter {
		return
	}
	total := mon.TotalAlloc() - a0
	if total <= c01AllocFixed && c.Replay == nil {
		return
	}
	// call by call
	for i := range items {
		it := &items[i]
		ep := &entryPoints[it.ep]
		b0 := mon.TotalAlloc()
		core.Guard(func() { _, _ = ep.call(it.in) })
		used := mon.TotalAlloc() - b0
		cs.Max("alloc_bytes_per_call", float64(used), fmt.Sprintf("%s len=%d %s", ep.name, len(it.in), mon.Hex(it.in, 48)))
		if len(it.in) > 0 {
			cs.Max("alloc_per_input_octet(inputs>=1KiB)", ratioBig(used, len(it.in)), fmt.Sprintf("%s len=%d", ep.name, len(it.in)))
		}
		bound := uint64(c01AllocFixed + c01AllocSlope*len(it.in))
		if used > bound {
			cs.Fail("alloc/"+ep.name, core.W{"entry_point": ep.name, "input_hex": mon.Hex(it.in, 512), "input_len": len(it.in), "allocated_bytes": used, "bound": bound})
		}
	}
}

func ratioBig(used uint64, n int) float64 {
	if n < 1024 {
		return 0
	}
	return float64(used) / float64(n)
}

// epsForKind lists the entry points a mutated encoding of kind k is fed to: the datagram
// decoder, its own decoder, the compound decoder and (all=true) every other packet decoder.
func epsAll() []int {
	out := make([]int, 0, 17)
	for i := 0; i <= int(gen.NumKinds); i++ {
		out = append(out, i)
	}
	return out
}

func c01Grid(c *core.Ctx) {
	// systematic grid: one case per (entry point, input length); inside: counts x length fields x patterns
	lenSet := []int{0, 1, 2, 3, 4, 5, 6, 7, 0x3FFF, 0x4000, 0x4001, 0x4002, 0x4003, 0x4004, 0x4005, 0x7FFF, 0x8000, 0xFFFF}
	nEP := uint64(len(entryPoints))
	c.Exhaustive("grid: every entry point x input length 0..64 x count 0..31 x length-field set (incl. true-1,true,true+1) x body pattern {00,FF,random}", nEP*65*32*uint64(len(lenSet)+3)*3)
	c.Section("grid", nEP*65, func(cs *core.Case) {
		epi := int(cs.Idx / 65)
		n := int(cs.Idx % 65)
		ep := &entryPoints[epi]
		r := cs.R
		var items []c01Item
		if ep.pt == 0 && epi != 0 {
			// sub-structure decoders: no RTCP header; patterns only
			for rep := 0; rep < 64; rep++ {
				b := make([]byte, n)
				switch rep % 4 {
				case 1:
					for i := range b {
						b[i] = 0xFF
					}
				case 2, 3:
					copy(b, r.Bytes(n))
				}
				if rep >= 32 && n >= 2 { // SDES item / chunk: length octet patterns
					b[1] = byte(r.Pick(0, 1, n-2, n-1, n, 255))
					if n >= 6 {
						b[5] = byte(r.Pick(0, 1, n-6, n-5, 255))
					}
				}
				items = append(items, c01Item{epi, b})
			}
			c01Run(cs, items)
			return
		}
		pts := []uint8{ep.pt}
		if epi == 0 {
			pts = []uint8{200, 201, 202, 203, 204, 205, 206, 207, 199}
		}
		for _, pt := range pts {
			for cnt := 0; cnt < 32; cnt++ {
				ls := append([]int{}, lenSet...)
				tw := n/4 - 1
				ls = append(ls, tw-1, tw, tw+1)
				for _, lf := range ls {
					if lf < 0 {
						continue
					}
					for pat := 0; pat < 3; pat++ {
						b := make([]byte, n)
						switch pat {
						case 1:
							for i := range b {
								b[i] = 0xFF
							}
						case 2:
							copy(b, r.Bytes(n))
						}
						if n >= 1 {
							b[0] = 0x80 | byte(cnt)
							if pat == 1 {
								b[0] |= 0x20
							}
						}
						if n >= 2 {
							b[1] = pt
						}
						if n >= 4 {
							b[2], b[3] = byte(lf>>8), byte(lf)
						}
						if pt == 206 && cnt == 15 && n >= 16 && pat == 2 {
							copy(b[8:16], []byte{0, 0, 0, 0, 'R', 'E', 'M', 'B'})
						}
						items = append(items, c01Item{epi, b})
					}
				}
			}
			c01Run(cs, items)
			items = items[:0]
		}
	})
}

// hostileInputs builds inputs aimed at count-driven allocation and long loops.
func hostileInputs(r *core.Rand, which int) []c01Item {
	var items []c01Item
	hdr := func(b []byte, cnt, pt byte) {
		b[0], b[1] = 0x80|cnt, pt
		gen.FitLength(b)
	}
	switch which % 10 {
	case 0: // TWCC announcing many received packets in few octets
		if r.Intn(4) == 0 {
			// a small status count, a last vector chunk whose surplus symbols are marked received, and
			// fewer octets behind the chunks than those surplus deltas would need (but possibly more
			// than 2 per counted status): a decoder that creates a delta per marked symbol must still
			// check every one against the frame end (after seed C06n)
			c := 1 + r.Intn(6)
			lead := r.Pick(0, 0, 1, 2) // not-received runs before the vector chunk
			vec := r.Pick(0xEAAA, 0xEAAA, 0xD555, 0xBFFF, 0xE6A9, 0xFFFF)
			need := map[int]int{0xEAAA: 14, 0xD555: 7, 0xBFFF: 14, 0xE6A9: 12, 0xFFFF: 14}[vec]
			t := r.Intn(need + 1)
			if r.Bool() && 2*c+1 <= need {
				t = 2*c + 1 + r.Intn(need-2*c)
			}
			n := 20 + 2*(lead+1) + t
			n += (4 - n%4) % 4
			b := make([]byte, n)
			copy(b[4:20], r.Bytes(16))
			left := c
			for i := 0; i < lead; i++ {
				run := 0
				if left > 1 {
					run = 1 + r.Intn(left-1)
				}
				left -= run
				b[20+2*i], b[21+2*i] = byte(run>>8), byte(run)
			}
			b[20+2*lead], b[21+2*lead] = byte(vec>>8), byte(vec)
			copy(b[22+2*lead:], r.Bytes(n-22-2*lead))
			hdr(b, 15, 205)
			b[14], b[15] = byte(c>>8), byte(c)
			next := []byte{0x80, 201, 0, 1, 1, 2, 3, 4}
			items = append(items, c01Item{1 + int(gen.TWCC), b}, c01Item{0, b}, c01Item{0, append(append([]byte(nil), b...), next...)},
				c01Item{1 + int(gen.TWCC), append(append(make([]byte, 0, n+64), b...), make([]byte, 64)...)[:n]})
			break
		}
		if r.Intn(3) == 0 {
			// far more maximal "received" runs than the status count needs: the count is reached after
			// 8 chunks; a decoder that does not stop there (a status counter that wraps) goes on
			// creating 8191 deltas per 2 octets
			k := r.Pick(9, 10, 16, 64, 100, 345, 690)
			c := r.Pick(65535, 65535, 65534, 65528, 65529, 60000, 57345)
			n := 20 + 2*k + r.Pick(0, 1, 2, 4, 64)
			n += (4 - n%4) % 4
			b := make([]byte, n)
			copy(b[4:20], r.Bytes(16))
			for i := 0; i < k; i++ {
				w := r.Pick(0x3FFF, 0x3FFF, 0x5FFF, 0x3FFE, 0x2001|0x1FFE)
				b[20+2*i], b[21+2*i] = byte(w>>8), byte(w)
			}
			hdr(b, 15, 205)
			b[14], b[15] = byte(c>>8), byte(c)
			items = append(items, c01Item{1 + int(gen.TWCC), b}, c01Item{0, b}, c01Item{1 + int(gen.Compound), b})
			break
		}
		if r.Bool() {
			// announced delta octets of 64 KiB and more (where a 16-bit sum wraps), declared length
			// fitted to the wrapped amount
			c := 32769 + r.Intn(32767)
			sym := r.Pick(1, 2, 2, 2)
			chunks := (c + 8190) / 8191
			announced := c * sym
			wrapped := announced % 65536
			body := wrapped + r.Pick(0, 0, 1, 2, 3, 4, 64)
			n := 20 + 2*chunks + body
			n += (4 - n%4) % 4
			if n > 65532 {
				n = 65532
			}
			b := make([]byte, n)
			copy(b[4:20], r.Bytes(16))
			for i := 0; i < chunks; i++ {
				w := sym<<13 | 0x1FFF
				b[20+2*i], b[21+2*i] = byte(w>>8), byte(w)
			}
			hdr(b, 15, 205)
			b[14], b[15] = byte(c>>8), byte(c)
			items = append(items, c01Item{1 + int(gen.TWCC), b}, c01Item{0, b})
			// the same octets as the head of a larger buffer
			big := append(append(make([]byte, 0, n+200000), b...), make([]byte, 200000)...)
			items = append(items, c01Item{1 + int(gen.TWCC), big[:n]})
			break
		}
		n := 20 + 4*r.Intn(6)
		b := make([]byte, n)
		copy(b[4:], r.Bytes(n-4))
		hdr(b, 15, 205)
		sc := r.Pick(65535, 65534, 32768, 8192, 8191)
		b[14], b[15] = byte(sc>>8), byte(sc)
		for o := 20; o+1 < n; o += 2 {
			w := r.Pick(0x2000|0x1FFF, 0x4000|0x1FFF, 0x3FFF, 0xBFFF, 0xD555, 0xEAAA, 0x0000, 0x1FFF)
			b[o], b[o+1] = byte(w>>8), byte(w)
		}
		items = append(items, c01Item{1 + int(gen.TWCC), b}, c01Item{0, b})
	case 1: // TWCC of 64 KiB and more: vector chunks, zero-length runs (the cursor walks to the very end), deltas to the end
		n := r.Pick(65532, 65532, 65536, 65540, 65544, 131072, 262140, 262144)
		if r.Bool() {
			b := make([]byte, n)
			switch r.Intn(3) {
			case 1: // every chunk a run of length 0 of "received small": never satisfies the count
				for i := 20; i+1 < n; i += 2 {
					b[i], b[i+1] = 0x20, 0
				}
			case 2: // few chunks announcing 65535 large deltas, then delta octets to the end
				copy(b[20:], []byte{0x5F, 0xFF, 0x5F, 0xFF, 0x5F, 0xFF, 0x5F, 0xFF, 0x5F, 0xFF, 0x5F, 0xFF, 0x5F, 0xFF, 0x5F, 0xFF, 0x5F, 0xFF})
			}
			hdr(b, 15, 205)
			b[14], b[15] = 0xFF, 0xFF
			items = append(items, c01Item{1 + int(gen.TWCC), b}, c01Item{0, b})
			break
		}
		b := make([]byte, n)
		for i := 20; i < n; i++ {
			b[i] = 0xBF
		}
		hdr(b, 15, 205)
		b[14], b[15] = 0xFF, 0xFF
		items = append(items, c01Item{1 + int(gen.TWCC), b}, c01Item{0, b})
	case 2: // SDES of many empty items / many tiny chunks
		if r.Chance(1, 4) {
			// one chunk of maximum-length items whose size is around 2^18 octets (where a word count
			// held in 16 bits becomes 0), in a buffer that may go on beyond what a length field can
			// describe: handed to the packet decoder, the chunk decoder and the datagram decoder
			target := r.Pick(262136, 262140, 262141, 262144, 262148, 262152, 65536, 65540, 131072)
			b := make([]byte, 0, target+600)
			b = append(b, 0x81, 202, 0, 0, byte(r.U8()), 1, 2, 3)
			for len(b)+257 < target+4 {
				b = append(b, byte(1+r.Intn(8)), 255)
				b = append(b, r.Bytes(255)...)
			}
			for len(b) < target+4-2 {
				rest := target + 4 - 2 - len(b)
				if rest > 257 {
					rest = 257
				}
				if rest < 2 {
					break
				}
				b = append(b, byte(1+r.Intn(8)), byte(rest-2))
				b = append(b, r.Bytes(rest-2)...)
			}
			b = append(b, 0, 0) // end of the item list
			for len(b)%4 != 0 {
				b = append(b, 0)
			}
			if r.Bool() {
				b = append(b, r.Bytes(4*r.Intn(8))...)
			}
			lf := len(b)/4 - 1
			if lf > 0xFFFF {
				lf = 0xFFFF
			}
			b[2], b[3] = byte(lf>>8), byte(lf)
			items = append(items, c01Item{1 + int(gen.SDES), b}, c01Item{17 + 2, b[4:]}, c01Item{0, b})
			break
		}
		n := 4 * (1 + r.Intn(16000))
		b := make([]byte, n)
		for i := 8; i+1 < n; i += 2 {
			b[i], b[i+1] = byte(1+r.Intn(255)), 0
		}
		if r.Bool() {
			for i := range b {
				b[i] = 0
			}
		}
		hdr(b, byte(r.Intn(32)), 202)
		items = append(items, c01Item{1 + int(gen.SDES), b}, c01Item{0, b}, c01Item{17 + 2, b[4:]})
	case 3: // XR: unknown block / RLE chunks / receipt times filling 64 KiB; nested lengths
		n := 4 * (3 + r.Intn(16000))
		b := make([]byte, n)
		copy(b[8:], r.Bytes(n-8))
		hdr(b, 0, 207)
		b[8] = byte(r.Pick(0, 1, 2, 3, 5, 99))
		bl := (n-8)/4 - 1
		if r.Bool() {
			bl = r.Pick(0, 1, 0xFFFF, bl-1, bl+1)
			if bl < 0 {
				bl = 0
			}
		}
		b[10], b[11] = byte(bl>>8), byte(bl)
		items = append(items, c01Item{1 + int(gen.XR), b}, c01Item{0, b})
	case 4: // XR of very many minimal blocks
		nb := 1 + r.Intn(8000)
		b := make([]byte, 8+4*nb)
		for i := 0; i < nb; i++ {
			b[8+4*i] = byte(r.Intn(10))
		}
		hdr(b, 0, 207)
		items = append(items, c01Item{1 + int(gen.XR), b}, c01Item{0, b})
	case 5: // CCFB num_reports vs remaining octets
		n := 4 * (5 + r.Intn(16000))
		b := make([]byte, n)
		hdr(b, 11, 205)
		nr := r.Pick(0xFFFF, 0x7FFF, 16384, 16383, (n-20)/2, (n-20)/2-1, (n-20)/2+1, 1, 0)
		b[12], b[13] = byte(r.Intn(2)), 0
		b[14], b[15] = byte(nr>>8), byte(nr)
		items = append(items, c01Item{1 + int(gen.CCFB), b}, c01Item{0, b})
	case 6: // 64 KiB datagram of very many small frames
		if r.Bool() {
			// one VALID small frame repeated to fill a datagram: whatever a decoder allocates per
			// accepted frame beyond a multiple of the frame's size is multiplied by the frame count
			var f []byte
			if r.Bool() {
				// TWCC announcing up to 65535 statuses in a few octets: a few received ones first
				// (run-length chunk, their deltas present), the rest not-received runs
				c := r.Pick(65535, 65534, 60000, 32768, 16384, 8192)
				k1 := 1 + r.Intn(3)
				sym := r.Pick(1, 1, 2)
				f = make([]byte, 20)
				copy(f[4:20], r.Bytes(16))
				f[14], f[15] = byte(c>>8), byte(c)
				w := sym<<13 | k1
				f = append(f, byte(w>>8), byte(w))
				for left := c - k1; left > 0; left -= 8191 {
					run := left
					if run > 8191 {
						run = 8191
					}
					f = append(f, byte(run>>8), byte(run))
				}
				f = append(f, r.Bytes(k1*sym)...)
				for len(f)%4 != 0 {
					f = append(f, 0)
				}
				hdr(f, 15, 205)
			} else if r.Chance(1, 3) {
				// a small XR frame whose single block announces far more than is there (the library clips
				// such a block to what is present and accepts it)
				bt := byte(r.Pick(1, 2, 3, 5, 8, 99, 255))
				bl := r.Pick(0xFFFF, 0x7FFF, 0x1000, 0x0100)
				f = []byte{0x80, 207, 0, 0, r.U8(), 1, 2, 3, bt, r.U8(), byte(bl >> 8), byte(bl)}
				f = append(f, r.Bytes(4*r.Pick(1, 1, 2, 3))...)
				gen.FitLength(f)
			} else if e, err := ref.Encode(gen.Packet(r, gen.AnyKind(r), gen.Opts{Small: true, NoBig: true}), ref.Lib); err == nil && len(e.B) > 0 && len(e.B) <= 2048 {
				f = e.B
			} else {
				f = []byte{0x80, 201, 0, 1, 1, 2, 3, 4}
			}
			total := r.Pick(60000, 65000, 65000, 200000)
			var b []byte
			for len(b)+len(f) <= total {
				b = append(b, f...)
			}
			items = append(items, c01Item{0, b}, c01Item{1 + int(gen.Compound), b})
			break
		}
		var b []byte
		for len(b) < 65000 {
			switch r.Intn(5) {
			case 0:
				b = append(b, 0x80, 201, 0, 1, 1, 2, 3, 4)
			case 1:
				b = append(b, 0x81, 206, 0, 2, 1, 2, 3, 4, 5, 6, 7, 8)
			case 2:
				b = append(b, 0x80|byte(r.Intn(32)), byte(r.Pick(199, 208, 192, 0, 255)), 0, 0)
			case 3:
				b = append(b, 0x80, 202, 0, 0)
			default:
				b = append(b, 0x80, 203, 0, 0)
			}
		}
		items = append(items, c01Item{0, b}, c01Item{1 + int(gen.Compound), b})
	case 7: // 256 KiB inputs: one maximal frame of each type
		pt := byte(r.Pick(200, 201, 202, 203, 204, 205, 206, 207, 199))
		b := make([]byte, 262144)
		if r.Bool() {
			copy(b[4:], r.Bytes(len(b)-4))
		}
		cnt := byte(r.Intn(32))
		b[0], b[1], b[2], b[3] = 0x80|cnt, pt, 0xFF, 0xFF
		for i := 0; i <= int(gen.NumKinds); i++ {
			items = append(items, c01Item{i, b})
		}
	case 8: // NACK / SLI / FIR / REMB with maximal lists and wrapped length fields
		n := 4 * (3 + r.Intn(16000))
		b := make([]byte, n)
		copy(b[4:], r.Bytes(n-4))
		k := []gen.Kind{gen.NACK, gen.SLI, gen.FIR, gen.REMB, gen.BYE, gen.SR, gen.RR, gen.APP}[r.Intn(8)]
		pc := map[gen.Kind][2]byte{gen.NACK: {205, 1}, gen.SLI: {205, 2}, gen.FIR: {206, 4}, gen.REMB: {206, 15}, gen.BYE: {203, 31}, gen.SR: {200, 31}, gen.RR: {201, 31}, gen.APP: {204, 3}}[k]
		hdr(b, pc[1], pc[0])
		if r.Chance(1, 3) {
			lf := r.Pick(0x4000, 0x4001, 0x4002, 0x4003, 0x8000, 0x8002, 0xC000, 0xC002, 0xFFFF)
			b[2], b[3] = byte(lf>>8), byte(lf)
		}
		items = append(items, c01Item{1 + int(k), b}, c01Item{0, b})
	default: // SDES chunk / item sub-decoders on long inputs
		n := 1 + r.Intn(70000)
		b := r.Bytes(n)
		if r.Bool() {
			for i := 4; i+1 < n; i += 2 {
				b[i], b[i+1] = 1, 0
			}
		}
		items = append(items, c01Item{17 + 2, b}, c01Item{17 + 3, b})
	}
	return items
}

func c01Workload(c *core.Ctx, scale uint64, race bool) {
	// (b) mutants of reference encodings → datagram decoder, own decoder, all other decoders
	c.Section("mutants", scale*c.N(60000, 4000000), func(cs *core.Case) {
		r := cs.R
		k := gen.Kind(cs.Idx % uint64(gen.Compound)) // 15 kinds
		v := gen.Packet(r, k, gen.Opts{Small: !r.Chance(1, 8), NoBig: true, AllowKF: true})
		dialect := ref.Lib
		if r.Chance(1, 4) {
			dialect = ref.RFC
		}
		var base []byte
		if e, err := ref.Encode(v, dialect); err == nil {
			base = e.B
		} else if b, merr, pan := gMarshal(v); merr == nil && pan == "" {
			base = b
		} else {
			return
		}
		var items []c01Item
		for m := 0; m < 6; m++ {
			in := base
			if m > 0 {
				in = gen.Mutate(r, base)
			}
			if m == 5 && len(in) < 60000 {
				// splice with a second encoding
				if e2, err := ref.Encode(gen.Packet(r, gen.AnyKind(r), gen.Opts{Small: true, NoBig: true}), ref.Lib); err == nil {
					in = append(append([]byte{}, in...), gen.Mutate(r, e2.B)...)
				}
			}
			if m <= 2 || race {
				for _, epi := range epsAll() {
					items = append(items, c01Item{epi, in})
				}
			} else {
				items = append(items, c01Item{0, in}, c01Item{1 + int(k), in}, c01Item{1 + int(gen.Compound), in})
			}
			// sub-structure decoders on the body
			if len(in) > 4 {
				body := in[4:]
				items = append(items, c01Item{17 + 2, body}, c01Item{17 + 3, body}, c01Item{17 + 1, body})
				if len(body) >= 2 {
					items = append(items, c01Item{17 + 4, body[:2]}, c01Item{17 + 5, body[:2]}, c01Item{17 + 6, body[:1+r.Intn(2)]})
				}
			}
			items = append(items, c01Item{17, in})
		}
		c01Run(cs, items)
		if cs.Idx < 64 {
			cs.Sample("mutant/"+k.String(), func() any {
				return map[string]any{"base_hex": mon.Hex(base, 48), "example_mutant_hex": mon.Hex(items[len(items)-1].in, 48)}
			})
		}
	})
	// (c) hostile shapes
	c.Section("hostile", scale*c.N(3000, 150000), func(cs *core.Case) {
		items := hostileInputs(cs.R, int(cs.Idx))
		c01Run(cs, items)
		if cs.Idx < 10 {
			cs.Sample("hostile", func() any {
				return map[string]any{"entry_point": entryPoints[items[0].ep].name, "input_len": len(items[0].in), "input_hex": mon.Hex(items[0].in, 48)}
			})
		}
	})
	// (c') receivers that are not fresh and not the result of an earlier decode either: values built
	// by hand (any list lengths and capacities, with and without spare capacity behind every
	// slice), for the 16 packet types and for the chunk decoder with a list-valued receiver
	c.Section("built-receivers", scale*c.N(40000, 2000000), func(cs *core.Case) {
		r := cs.R
		k := gen.Kind(cs.Idx % uint64(gen.NumKinds))
		var in []byte
		if e, err := ref.Encode(gen.Packet(r, k, gen.Opts{Small: true, NoBig: true}), ref.Lib); err == nil {
			in = e.B
		} else {
			in = []byte{0x80, 200, 0, 0}
		}
		if r.Chance(1, 3) {
			in = gen.Mutate(r, in)
		}
		recv := gen.Packet(r, k, gen.Opts{Small: true, NoBig: true, AllowKF: true})
		if r.Bool() {
			recv = mon.AddSlack(recv, r.Intn(4), r.U64).(rtcp.Packet)
		}
		before := vdump(recv)
		if pan, v, st := core.Guard(func() { _ = recv.Unmarshal(cloneBytes(in)) }); pan {
			cs.Fail("panic/built-receiver/"+entryPoints[1+int(k)].name, core.W{"entry_point": entryPoints[1+int(k)].name, "input_hex": mon.Hex(in, 400), "receiver_before_this_call": before, "panic": fmt.Sprint(v), "stack": st})
			return
		}
		cs.Eval(1)
		cs.Distinct(core.Digest([]byte("br"), in, []byte(before)))
		c.Res.Hist["built-receiver-decodes"]++
		// the status vector chunk decoder with receivers holding 0..20 symbols at capacity == length
		// or more, both symbol sizes, every chunk word class
		for i := 0; i < 4; i++ {
			n := r.Intn(21)
			sv := rtcp.StatusVectorChunk{Type: uint16(r.Intn(2)), SymbolSize: uint16(r.Intn(3)), SymbolList: make([]uint16, n, n+r.Pick(0, 0, 1, 7, 14))}
			w := []byte{byte(0x80 | r.Intn(128)), r.U8()}
			if pan, v, st := core.Guard(func() { _ = sv.Unmarshal(w) }); pan {
				cs.Fail("panic/built-receiver/(*StatusVectorChunk).Unmarshal", core.W{"entry_point": "(*StatusVectorChunk).Unmarshal", "input_hex": mon.Hex(w, 4), "receiver_symbols": n, "receiver_capacity": cap(sv.SymbolList) - 0, "panic": fmt.Sprint(v), "stack": st})
				return
			}
			cs.Eval(1)
		}
	})
	// (d) purely random short strings with a plausible first octet
	c.Section("random", scale*c.N(20000, 1000000), func(cs *core.Case) {
		r := cs.R
		var items []c01Item
		for i := 0; i < 32; i++ {
			n := r.Intn(80)
			b := r.Bytes(n)
			if n > 0 && r.Chance(7, 8) {
				b[0] = b[0]&0x3F | 0x80
			}
			if n > 1 && r.Chance(3, 4) {
				b[1] = byte(200 + r.Intn(8))
			}
			if n > 3 && r.Chance(1, 2) {
				b[2], b[3] = 0, byte(r.Intn(n/4+2))
			}
			for epi := range entryPoints {
				items = append(items, c01Item{epi, b})
			}
		}
		c01Run(cs, items)
	})
}

func runC01(c *core.Ctx) {
	c01Grid(c)
	c01Workload(c, 1, false)
	// regression witnesses of the repaired decoder panics
	c.Once("regression", func(cs *core.Case) {
		c01Run(cs, []c01Item{
			{1 + int(gen.SLI), []byte{0x82, 0xcd, 0x00, 0x01, 0xbf, 0xe2, 0x8d, 0xb5}},
			{1 + int(gen.SLI), []byte{0x82, 0xcd, 0x00, 0x00, 1, 2, 3, 4}},
			{1 + int(gen.FIR), []byte{0x84, 0xce, 0x00, 0x00, 1, 2, 3, 4}},
			{0, []byte{0x84, 0xce, 0x00, 0x01, 1, 2, 3, 4}},
		})
	})
}

// runC01Race repeats a subset under the -race build, whose checkptr instrumentation polices
// the reflect.NewAt / UnsafeAddr site of the XR reader on hostile inputs.
func runC01Race(c *core.Ctx) {
	c.Section("race-xr", c.N(3000, 100000), func(cs *core.Case) {
		r := cs.R
		x := gen.Packet(r, gen.XR, gen.Opts{AllowKF: true})
		b, err, pan := gMarshal(x)
		if err != nil || pan != "" {
			return
		}
		var items []c01Item
		for m := 0; m < 8; m++ {
			in := b
			if m > 0 {
				in = gen.Mutate(r, b)
			}
			items = append(items, c01Item{1 + int(gen.XR), in}, c01Item{0, in})
		}
		c01Run(cs, items)
	})
	c01WorkloadRace(c)
}

func c01WorkloadRace(c *core.Ctx) {
	c.Section("race-mutants", c.N(2500, 100000), func(cs *core.Case) {
		r := cs.R
		k := gen.Kind(cs.Idx % uint64(gen.Compound))
		v := gen.Packet(r, k, gen.Opts{Small: true, NoBig: true, AllowKF: true})
		e, err := ref.Encode(v, ref.Lib)
		if err != nil {
			return
		}
		var items []c01Item
		for m := 0; m < 4; m++ {
			in := gen.Mutate(r, e.B)
			for _, epi := range epsAll() {
				items = append(items, c01Item{epi, in})
			}
		}
		c01Run(cs, items)
	})
	c.Section("race-hostile", c.N(200, 5000), func(cs *core.Case) {
		c01Run(cs, hostileInputs(cs.R, int(cs.Idx)))
	})
}
