package props

import (
	"fmt"
	"sort"

	"github.com/pion/rtcp"

	"verifharness/internal/core"
)

func init() {
	core.Register(&core.PropDef{
		ID:         "C12",
		Run:        runC12,
		RunRace:    func(c *core.Ctx) { coldSection(c, c.N(32, 800), []string{"nack-list", "nack-range", "nack-pairs"}) },
		RaceShards: 4,
		RaceProcs:  4,
		Technique:  "runtime set-cover / order / early-stop oracles on the NACK pair helpers, with exhaustive enumeration of (PacketID, bitmap) pairs",
		Rule: "NackPairsFromSequenceNumbers: all lists of length <= 3 over a 27-value window straddling 65535->0 plus random lists (length <= 300; gaps biased to 0, 1, 15, 16, 17, 18, 65535, about half the ring, slightly backwards; all lists of length <= 4 over a 16-value alphabet of neighbours, pair-width and half-ring distances; sorted, reversed, shuffled, duplicates); " +
			"PacketList/Range: all 2^16 bitmaps x 40 packet ids (quick) / all 2^32 (id, bitmap) pairs (thorough); early stop: all 18 stop positions x all 2^16 bitmaps; " +
			"cold start: child processes whose first calls into PacketList/Range/NackPairsFromSequenceNumbers are made by 2..32 goroutines at once, compared with a sequential child, with and without the race detector; " +
			"non-trivial = every case; pairs are distinct by construction, lists by digest",
		Assumptions: []string{
			"expected PacketList(id, bm) = [id] ++ [id+i+1 mod 2^16 | bit i set, ascending i]",
			"Range must make exactly min(k+1, total) callback calls when the callback returns false on its k-th (0-based) call",
		},
		MinDistinctQuick: 1000000, MinDistinctThorough: 1 << 32,
	})
}

func c12List(cs *core.Case, in []uint16) {
	var pairs []rtcp.NackPair
	panicked, val, stack := core.Guard(func() { pairs = rtcp.NackPairsFromSequenceNumbers(append([]uint16(nil), in...)) })
	cs.Eval(1)
	if panicked {
		cs.Fail("panic/NackPairsFromSequenceNumbers", core.W{"input": fmt.Sprint(in), "panic": val, "stack": stack})
		return
	}
	want := map[uint16]bool{}
	for _, s := range in {
		want[s] = true
	}
	got := map[uint16]bool{}
	for _, p := range pairs {
		p := p
		got[p.PacketID] = true
		for i := uint16(0); i < 16; i++ {
			if uint16(p.LostPackets)>>i&1 == 1 {
				got[p.PacketID+i+1] = true
			}
		}
	}
	var missing, extra []int
	for s := range want {
		if !got[s] {
			missing = append(missing, int(s))
		}
	}
	for s := range got {
		if !want[s] {
			extra = append(extra, int(s))
		}
	}
	if len(missing) > 0 || len(extra) > 0 {
		sort.Ints(missing)
		sort.Ints(extra)
		cs.Fail("cover", core.W{"input": fmt.Sprint(in), "pairs": fmt.Sprintf("%+v", pairs), "missing": missing, "extra": extra})
	}
	if len(in) == 0 && len(pairs) != 0 {
		cs.Fail("cover/empty", core.W{"pairs": fmt.Sprintf("%+v", pairs)})
	}
}

// c12Pair checks PacketList and Range (full and with early stop at `stops`) for one pair.
func c12Pair(id, bm uint16, stops []int) (aspect string, detail core.W) {
	var want [17]uint16
	n := 1
	want[0] = id
	for i := uint16(0); i < 16; i++ {
		if bm>>i&1 == 1 {
			want[n] = id + i + 1
			n++
		}
	}
	p := rtcp.NackPair{PacketID: id, LostPackets: rtcp.PacketBitmap(bm)}
	got := p.PacketList()
	ok := len(got) == n
	if ok {
		for i := 0; i < n; i++ {
			if got[i] != want[i] {
				ok = false
				break
			}
		}
	}
	if !ok {
		return "packet-list", core.W{"packet_id": id, "bitmap": fmt.Sprintf("%016b", bm), "got": fmt.Sprint(got), "expected": fmt.Sprint(want[:n])}
	}
	// Range visits the same numbers in the same order
	var seen [20]uint16
	calls := 0
	p.Range(func(s uint16) bool {
		if calls < len(seen) {
			seen[calls] = s
		}
		calls++
		return true
	})
	ok = calls == n
	for i := 0; ok && i < n; i++ {
		ok = seen[i] == want[i]
	}
	if !ok {
		return "range/order", core.W{"packet_id": id, "bitmap": fmt.Sprintf("%016b", bm), "calls": calls, "seen": fmt.Sprint(seen[:min(calls, 20)]), "expected": fmt.Sprint(want[:n])}
	}
	for _, k := range stops {
		calls = 0
		bad := false
		p.Range(func(s uint16) bool {
			if calls < n && s != want[calls] {
				bad = true
			}
			calls++
			return calls-1 != k
		})
		exp := k + 1
		if exp > n {
			exp = n
		}
		if calls != exp || bad {
			return "range/early-stop", core.W{"packet_id": id, "bitmap": fmt.Sprintf("%016b", bm), "stop_at_call": k, "calls": calls, "expected_calls": exp}
		}
	}
	return "", nil
}

func min(a, b int) int {
	if a < b {
		return a
	}
	return b
}

func runC12(c *core.Ctx) {
	coldSection(c, c.N(32, 800), []string{"nack-list", "nack-range", "nack-pairs"})
	// (1) lists: exhaustive small lists over a window straddling the wrap
	window := []uint16{}
	for v := -10; v <= 16; v++ {
		window = append(window, uint16(v))
	}
	w := uint64(len(window))
	c.Exhaustive("all lists of length <= 3 over a 27-value window straddling 65535->0", 1+w+w*w+w*w*w)
	c.Section("lists-exhaustive", 1+w+w*w+w*w*w, func(cs *core.Case) {
		x := cs.Idx
		var in []uint16
		switch {
		case x == 0:
		case x < 1+w:
			in = []uint16{window[x-1]}
		case x < 1+w+w*w:
			x -= 1 + w
			in = []uint16{window[x/w], window[x%w]}
		default:
			x -= 1 + w + w*w
			in = []uint16{window[x/(w*w)], window[x/w%w], window[x%w]}
		}
		cs.DistinctN(1)
		c12List(cs, in)
	})
	// all lists of length <= 4 over an alphabet that has numbers next to each other, a full pair
	// width apart and half the ring apart (where a signed 16-bit distance changes sign)
	alpha := []uint16{0, 1, 2, 3, 15, 16, 17, 32766, 32767, 32768, 32769, 32770, 32771, 65533, 65534, 65535}
	a := uint64(len(alpha))
	c.Exhaustive("all lists of length <= 4 over a 16-value alphabet with neighbours, pair-width and half-ring distances", 1+a+a*a+a*a*a+a*a*a*a)
	c.Section("lists-half-ring", a*a*a*a, func(cs *core.Case) {
		x := cs.Idx
		in := []uint16{alpha[x/(a*a*a)], alpha[x/(a*a)%a], alpha[x/a%a], alpha[x%a]}
		base := uint16(0)
		if x%7 == 3 {
			base = cs.R.U16() // the same shape anywhere on the ring
		}
		for i := range in {
			in[i] += base
		}
		cs.DistinctN(4)
		// the list and its three proper prefixes
		for n := 1; n <= 4; n++ {
			c12List(cs, in[:n])
		}
	})
	c.Section("lists-random", c.N(400000, 10000000), func(cs *core.Case) {
		r := cs.R
		n := r.Pick(1, 2, 3, 5, 17, 18, 33, r.Intn(300))
		in := make([]uint16, 0, n)
		cur := r.B16()
		if r.Chance(1, 3) {
			cur = uint16(65536 - r.Intn(40))
		}
		for i := 0; i < n; i++ {
			in = append(in, cur)
			gap := r.Pick(0, 1, 1, 1, 2, 15, 16, 17, 18, 65535, r.Intn(40), int(r.U16()), 32766+r.Intn(5), 65536-r.Intn(20))
			cur += uint16(gap)
		}
		if r.Chance(1, 5) {
			// a completely full pair (a number and its 16 successors, ascending), then a few numbers
			// from the neighbourhood in any order (repeats of covered numbers, numbers just below the
			// pair, just above it), then perhaps a far one
			base := r.B16()
			in = in[:0]
			for i := 0; i <= 16; i++ {
				in = append(in, base+uint16(i))
			}
			for i := 1 + r.Intn(6); i > 0; i-- {
				in = append(in, base+uint16(r.Intn(57))-20)
			}
			if r.Bool() {
				in = append(in, base+uint16(r.Pick(200, 300, 32768, 40000)))
			}
		}
		switch r.Intn(5) {
		case 0: // reversed
			for i, j := 0, len(in)-1; i < j; i, j = i+1, j-1 {
				in[i], in[j] = in[j], in[i]
			}
		case 1: // shuffled
			for i := len(in) - 1; i > 0; i-- {
				j := r.Intn(i + 1)
				in[i], in[j] = in[j], in[i]
			}
		case 2: // duplicates
			for i := 0; i < len(in)/3; i++ {
				in[r.Intn(len(in))] = in[r.Intn(len(in))]
			}
		}
		b := make([]byte, 2*len(in))
		for i, s := range in {
			b[2*i], b[2*i+1] = byte(s>>8), byte(s)
		}
		cs.Distinct(core.Digest(b))
		c12List(cs, in)
		if cs.Idx < 40 {
			cs.Sample("list", func() any {
				return map[string]any{"input": fmt.Sprint(in), "pairs": fmt.Sprintf("%+v", rtcp.NackPairsFromSequenceNumbers(in))}
			})
		}
	})
	// (2) pairs
	allStops := make([]int, 18)
	for i := range allStops {
		allStops[i] = i
	}
	if c.Thorough() {
		c.Exhaustive("all 2^32 (PacketID, bitmap) pairs: PacketList and Range", 1<<32)
		c.Section("pairs-all", 1<<16, func(cs *core.Case) {
			id := uint16(cs.Idx)
			for bm := 0; bm < 1<<16; bm++ {
				if a, d := c12Pair(id, uint16(bm), nil); a != "" {
					cs.Fail(a, d)
					return
				}
			}
			cs.Eval(2 << 16)
			cs.DistinctN(1 << 16)
		})
	} else {
		ids := []uint16{0, 1, 2, 15, 16, 17, 255, 256, 1000, 32767, 32768, 32769, 40000, 50000, 60000, 65000}
		for v := 65512; v <= 65535; v++ {
			ids = append(ids, uint16(v))
		}
		c.Exhaustive("all 2^16 bitmaps x 40 packet ids: PacketList and Range", uint64(len(ids))<<16)
		c.Section("pairs-40ids", uint64(len(ids))*16, func(cs *core.Case) {
			id := ids[cs.Idx/16]
			lo := int(cs.Idx%16) << 12
			for bm := lo; bm < lo+1<<12; bm++ {
				if a, d := c12Pair(id, uint16(bm), nil); a != "" {
					cs.Fail(a, d)
					return
				}
			}
			cs.Eval(2 << 12)
			cs.DistinctN(1 << 12)
		})
	}
	// (3) early stop: all 18 stop positions x all 2^16 bitmaps (ids near the wrap)
	c.Exhaustive("all 18 early-stop positions x all 2^16 bitmaps", 18<<16)
	c.Section("early-stop", 64, func(cs *core.Case) {
		id := []uint16{0, 65530, 65535, 12345}[cs.Idx%4]
		lo := int(cs.Idx/4) << 12
		for bm := lo; bm < lo+1<<12; bm++ {
			if a, d := c12Pair(id, uint16(bm), allStops); a != "" {
				cs.Fail(a, d)
				return
			}
		}
		cs.Eval(18 << 12)
		cs.DistinctN(1 << 12)
		if cs.Idx == 0 {
			cs.Sample("pair", func() any {
				p := rtcp.NackPair{PacketID: 65530, LostPackets: 0x8421}
				return map[string]any{"packet_id": 65530, "bitmap": "1000010000100001", "packet_list": fmt.Sprint(p.PacketList())}
			})
		}
	})
}
