package props

import (
	"bytes"
	"fmt"
	"reflect"
	"strings"

	"github.com/pion/rtcp"

	"verifharness/internal/core"
	"verifharness/internal/gen"
	"verifharness/internal/mon"
	"verifharness/internal/ref"
)

func init() {
	core.Register(&core.PropDef{
		ID:        "C03",
		Run:       runC03,
		Technique: "runtime comparison of Marshal output with an independent RFC reference encoder under a don't-care mask, per field",
		Rule: "the C02 value stream over D (all 16 types) plus per-field walking values (each leaf field in turn set to all-ones / high bit / alternating bits, others zero); " +
			"a case is judged when the reference can encode the value (it lies in D); non-trivial = at least 8 octets compared; distinct by digest of (type, reference octets)",
		Assumptions: []string{
			"the reference encoder (harness/internal/ref) is my reading of the RFCs/drafts; it is cross-checked at start-up against byte vectors captured from other implementations (Chrome REMB, libwebrtc TWCC, a 6-packet datagram)",
			"only padding octets the RFCs leave unspecified (APP pad octets other than the final count) are masked; reserved bits and zero padding are compared",
		},
		MinDistinctQuick: 20000, MinDistinctThorough: 500000,
	})
}

// refSelfCheck compares the reference encoder with third-party byte vectors.
func refSelfCheck() error {
	type vec struct {
		name string
		v    rtcp.Packet
		want []byte
	}
	sdes := rtcp.NewCNAMESourceDescription(0x902f9e2e, "{9c00eb92-1afb-9d49-a47d-91f64eee69f5}")
	vecs := []vec{
		{"chrome-remb", &rtcp.ReceiverEstimatedMaximumBitrate{SenderSSRC: 1, Bitrate: 8927168, SSRCs: []uint32{1215622422}},
			[]byte{143, 206, 0, 5, 0, 0, 0, 1, 0, 0, 0, 0, 82, 69, 77, 66, 1, 26, 32, 223, 72, 116, 237, 22}},
		{"libwebrtc-twcc", &rtcp.TransportLayerCC{Header: rtcp.Header{Padding: true, Count: 15, Type: 205, Length: 5}, SenderSSRC: 4195875351, MediaSSRC: 1124282272,
			BaseSequenceNumber: 153, PacketStatusCount: 1, ReferenceTime: 4057090, FbPktCount: 23,
			PacketChunks: []rtcp.PacketStatusChunk{&rtcp.RunLengthChunk{PacketStatusSymbol: 1, RunLength: 1}},
			RecvDeltas:   []*rtcp.RecvDelta{{Type: 1, Delta: 37000}}},
			[]byte{0xaf, 0xcd, 0x0, 0x5, 0xfa, 0x17, 0xfa, 0x17, 0x43, 0x3, 0x2f, 0xa0, 0x0, 0x99, 0x0, 0x1, 0x3d, 0xe8, 0x2, 0x17, 0x20, 0x1, 0x94, 0x1}},
		{"rr", &rtcp.ReceiverReport{SSRC: 0x902f9e2e, Reports: []rtcp.ReceptionReport{{SSRC: 0xbc5e9a40, LastSequenceNumber: 0x46e1, Jitter: 273, LastSenderReport: 0x9f36432, Delay: 150137}}},
			[]byte{0x81, 0xc9, 0x0, 0x7, 0x90, 0x2f, 0x9e, 0x2e, 0xbc, 0x5e, 0x9a, 0x40, 0x0, 0x0, 0x0, 0x0, 0x0, 0x0, 0x46, 0xe1, 0x0, 0x0, 0x1, 0x11, 0x9, 0xf3, 0x64, 0x32, 0x0, 0x2, 0x4a, 0x79}},
		{"sdes", sdes, append(append([]byte{0x81, 0xca, 0x0, 0xc, 0x90, 0x2f, 0x9e, 0x2e, 0x1, 0x26}, []byte("{9c00eb92-1afb-9d49-a47d-91f64eee69f5}")...), 0, 0, 0, 0)},
		{"bye", &rtcp.Goodbye{Sources: []uint32{0x902f9e2e}}, []byte{0x81, 0xcb, 0x0, 0x1, 0x90, 0x2f, 0x9e, 0x2e}},
		{"pli", &rtcp.PictureLossIndication{SenderSSRC: 0x902f9e2e, MediaSSRC: 0x902f9e2e}, []byte{0x81, 0xce, 0x0, 0x2, 0x90, 0x2f, 0x9e, 0x2e, 0x90, 0x2f, 0x9e, 0x2e}},
		{"rrr", &rtcp.RapidResynchronizationRequest{SenderSSRC: 0x902f9e2e, MediaSSRC: 0x902f9e2e}, []byte{0x85, 0xcd, 0x0, 0x2, 0x90, 0x2f, 0x9e, 0x2e, 0x90, 0x2f, 0x9e, 0x2e}},
		{"app", &rtcp.ApplicationDefined{SSRC: 0x4baae1ab, Name: "NAME", Data: []byte{0x41, 0x42, 0x43, 0x44}}, []byte{0x80, 0xcc, 0x00, 0x03, 0x4b, 0xaa, 0xe1, 0xab, 0x4E, 0x41, 0x4D, 0x45, 0x41, 0x42, 0x43, 0x44}},
	}
	for _, v := range vecs {
		e, err := ref.Encode(v.v, ref.RFC)
		if err != nil {
			return fmt.Errorf("reference cannot encode vector %s: %v", v.name, err)
		}
		if !bytes.Equal(e.B, v.want) {
			return fmt.Errorf("reference disagrees with third-party vector %s: %x vs %x", v.name, e.B, v.want)
		}
	}
	return nil
}

func c03Value(cs *core.Case, p rtcp.Packet, where string) {
	k := gen.KindOf(p)
	e, rerr := ref.Encode(p, ref.RFC)
	if rerr != nil {
		cs.Count("outside-D/" + k.String())
		return
	}
	b, err, pan := gMarshal(p)
	cs.Eval(1)
	det := func(extra core.W) core.W {
		d := core.W{"type": k.String(), "value": vdump(p), "marshal_hex": mon.Hex(b, 200), "reference_hex": mon.Hex(e.B, 200)}
		for kk, vv := range extra {
			d[kk] = vv
		}
		return d
	}
	if pan != "" {
		cs.Fail("panic/Marshal", core.W{"value": vdump(p), "panic": pan})
		return
	}
	if err != nil {
		cs.Fail("layout/"+k.String()+"/marshal-error", det(core.W{"error": errStr(err)}))
		return
	}
	if len(e.B) >= 8 {
		cs.Distinct(core.Digest([]byte(k.String()), e.B))
	}
	cs.Count(where + "/" + k.String())
	cs.Sample(where+"/"+k.String(), func() any {
		return map[string]any{"value": vdump(p), "marshal_hex": mon.Hex(b, 64), "reference_hex": mon.Hex(e.B, 64)}
	})
	if len(b) != len(e.B) {
		var kfs []string
		cs.Fail("layout/"+k.String()+"/length", det(core.W{"len": len(b), "reference_len": len(e.B)}), kfs...)
		return
	}
	// every differing field is judged on its own, so that a known deviation in one field does
	// not hide a different one elsewhere in the same packet
	reported := map[string]bool{}
	for i := range b {
		if b[i] == e.B[i] || e.Mask[i] == 0 {
			continue
		}
		f := e.FieldAt(i)
		base := stripIndices(f)
		if reported[base] {
			continue
		}
		reported[base] = true
		var kfs []string
		if strings.HasSuffix(base, "hdr.pt") && fieldIsSLI(p, f) {
			kfs = append(kfs, "KF1")
		}
		if strings.HasSuffix(base, "num_reports") {
			// known finding KF2 exactly: the field holds the number of metric blocks minus one
			for _, fl := range e.Fields {
				if fl.Name == f && fl.Len == 2 && fl.Off+2 <= len(b) {
					got16 := int(b[fl.Off])<<8 | int(b[fl.Off+1])
					want16 := int(e.B[fl.Off])<<8 | int(e.B[fl.Off+1])
					if want16 > 0 && got16 == want16-1 {
						kfs = append(kfs, "KF2")
					}
				}
			}
		}
		cs.Fail("layout/"+k.String()+"/"+base, det(core.W{"offset": i, "field": f, "got": b[i], "want": e.B[i]}), kfs...)
	}
	// MarshalTo (REMB has one) writes the same octets into a buffer the caller owns, whatever that
	// buffer held before, and nothing beyond them
	if rp, ok := p.(*rtcp.ReceiverEstimatedMaximumBitrate); ok {
		r := cs.R
		slack := r.Pick(0, 1, 4, 64)
		buf := r.Bytes(len(e.B) + slack)
		for i := range buf {
			if buf[i] == 0 {
				buf[i] = 0xA5 // every octet dirty
			}
		}
		before := cloneBytes(buf)
		var n int
		var terr error
		if panicked, v, st := core.Guard(func() { n, terr = rp.MarshalTo(buf) }); panicked {
			cs.Fail("panic/MarshalTo", core.W{"value": vdump(p), "panic": v, "stack": st})
			return
		}
		cs.Eval(1)
		cs.Count(where + "/MarshalTo")
		ok := terr == nil && n == len(e.B) && firstDiff(buf[:n], e.B, e.Mask) < 0 && bytes.Equal(buf[n:], before[n:])
		cs.Check(ok, "layout/"+k.String()+"/MarshalTo", func() core.W {
			return det(core.W{"n": n, "error": errStr(terr), "buffer_before_hex": mon.Hex(before, 200), "buffer_after_hex": mon.Hex(buf, 200)})
		})
	}
}

// cap14 is the number of statuses a vector chunk covers on the wire: 14 one-bit or 7 two-bit symbols.
func cap14(v *rtcp.StatusVectorChunk) int {
	if v.SymbolSize == 1 {
		return 7
	}
	return 14
}

// fieldIsSLI reports whether the header field named f belongs to an SLI (directly or as a
// compound member).
func fieldIsSLI(p rtcp.Packet, f string) bool {
	if _, ok := p.(*rtcp.SliceLossIndication); ok {
		return true
	}
	if c, ok := p.(*rtcp.CompoundPacket); ok {
		var idx int
		if _, err := fmt.Sscanf(f, "member[%d].", &idx); err == nil && idx < len(*c) {
			_, ok := (*c)[idx].(*rtcp.SliceLossIndication)
			return ok
		}
	}
	return false
}

func stripIndices(f string) string {
	var sb strings.Builder
	depth := 0
	for _, r := range f {
		switch {
		case r == '[':
			depth++
			sb.WriteString("[]")
		case r == ']':
			depth--
		case depth == 0:
			sb.WriteRune(r)
		}
	}
	return sb.String()
}

// leaf is an addressable scalar field inside a packet value.
type leaf struct {
	path string
	v    reflect.Value
}

func collectLeaves(v reflect.Value, path string, out *[]leaf) {
	switch v.Kind() {
	case reflect.Ptr, reflect.Interface:
		if !v.IsNil() {
			collectLeaves(v.Elem(), path, out)
		}
	case reflect.Struct:
		for i := 0; i < v.NumField(); i++ {
			f := v.Type().Field(i)
			if f.Name == "_" || f.Name == "PacketStatusChunk" {
				continue
			}
			collectLeaves(v.Field(i), path+"."+f.Name, out)
		}
	case reflect.Slice:
		if v.Type().Elem().Kind() == reflect.Uint8 {
			if v.Len() > 0 {
				*out = append(*out, leaf{path, v})
			}
			return
		}
		for i := 0; i < v.Len(); i++ {
			collectLeaves(v.Index(i), fmt.Sprintf("%s[%d]", path, i), out)
		}
	case reflect.Uint8, reflect.Uint16, reflect.Uint32, reflect.Uint64, reflect.Bool, reflect.Int64, reflect.String, reflect.Float32:
		if v.CanSet() {
			*out = append(*out, leaf{path, v})
		}
	}
}

// correlate returns a copy of p in which one numeric field has been tied to another one
// (equal, off by one, or complementary with respect to the field width), if the result still
// lies in D; otherwise p itself. Independent boundary-biased draws almost never produce such
// relations between two fields (A == B+1, A+B == 2^16, …).
func correlate(r *core.Rand, p rtcp.Packet) rtcp.Packet {
	q := clonePacket(p)
	var ls []leaf
	collectLeaves(reflect.ValueOf(q), "", &ls)
	if _, compound := p.(*rtcp.CompoundPacket); compound {
		return p // members get tied fields in their own kinds; the compound grammar (CNAME item type) must stay intact
	}
	var nums []leaf
	for _, l := range ls {
		// structural fields whose values are tied to the rest of the value by D itself are left alone
		if strings.Contains(l.path, "PacketChunks") || strings.Contains(l.path, "RecvDeltas") || strings.Contains(l.path, "PacketStatusCount") ||
			strings.Contains(l.path, "Header") || strings.HasSuffix(l.path, ".Type") {
			continue
		}
		switch l.v.Kind() {
		case reflect.Uint8, reflect.Uint16, reflect.Uint32, reflect.Uint64:
			nums = append(nums, l)
		}
	}
	if len(nums) < 2 {
		return p
	}
	for n := 1 + r.Intn(2); n > 0; n-- {
		a, b := nums[r.Intn(len(nums))], nums[r.Intn(len(nums))]
		if a.v == b.v {
			continue
		}
		bits := uint(a.v.Type().Bits())
		mask := ^uint64(0)
		if bits < 64 {
			mask = uint64(1)<<bits - 1
		}
		bv := b.v.Uint()
		var nv uint64
		switch r.Intn(6) {
		case 0:
			nv = bv
		case 1:
			nv = bv + 1
		case 2:
			nv = bv - 1
		case 3:
			nv = (uint64(1) << (bits % 64)) - bv // a+b == 2^bits
		case 4:
			nv = (uint64(1) << (bits % 64)) - bv - 1 // a+b == 2^bits-1
		default:
			nv = ^bv
		}
		a.v.SetUint(nv & mask)
	}
	if t, ok := q.(*rtcp.TransportLayerCC); ok {
		fixTWCCHeader(t)
	}
	if _, err := ref.Encode(q, ref.Lib); err != nil {
		return p
	}
	return q
}

// walkBase builds, per kind, a value with one (or two) element(s) in every list and all
// scalar fields zero.
func walkBase(k gen.Kind) rtcp.Packet {
	switch k {
	case gen.SR:
		return &rtcp.SenderReport{Reports: make([]rtcp.ReceptionReport, 2), ProfileExtensions: make([]byte, 4)}
	case gen.RR:
		return &rtcp.ReceiverReport{Reports: make([]rtcp.ReceptionReport, 2), ProfileExtensions: make([]byte, 4)}
	case gen.SDES:
		return &rtcp.SourceDescription{Chunks: []rtcp.SourceDescriptionChunk{{Items: []rtcp.SourceDescriptionItem{{Type: 1, Text: "a"}, {Type: 2, Text: "bc"}}}, {Items: []rtcp.SourceDescriptionItem{{Type: 1, Text: "d"}}}}}
	case gen.BYE:
		return &rtcp.Goodbye{Sources: make([]uint32, 2), Reason: "x"}
	case gen.APP:
		return &rtcp.ApplicationDefined{Name: "\x00\x00\x00\x00", Data: make([]byte, 4)}
	case gen.NACK:
		return &rtcp.TransportLayerNack{Nacks: make([]rtcp.NackPair, 2)}
	case gen.RRR:
		return &rtcp.RapidResynchronizationRequest{}
	case gen.PLI:
		return &rtcp.PictureLossIndication{}
	case gen.SLI:
		return &rtcp.SliceLossIndication{SLI: make([]rtcp.SLIEntry, 2)}
	case gen.FIR:
		return &rtcp.FullIntraRequest{FIR: make([]rtcp.FIREntry, 2)}
	case gen.REMB:
		return &rtcp.ReceiverEstimatedMaximumBitrate{SSRCs: make([]uint32, 2)}
	case gen.CCFB:
		return &rtcp.CCFeedbackReport{ReportBlocks: []rtcp.CCFeedbackReportBlock{{MetricBlocks: []rtcp.CCFeedbackMetricBlock{{Received: true}, {Received: true}}}, {MetricBlocks: []rtcp.CCFeedbackMetricBlock{{Received: true}, {Received: true}, {Received: true}}}}}
	case gen.TWCC:
		m := &gen.TWCCModel{Status: []uint8{1, 2, 0, 1}, Deltas: []int64{0, 0, 0}}
		return m.Value([]rtcp.PacketStatusChunk{&rtcp.StatusVectorChunk{Type: 1, SymbolSize: 1, SymbolList: []uint16{1, 2, 0, 1, 0, 0, 0}}})
	case gen.XR:
		return &rtcp.ExtendedReport{Reports: []rtcp.ReportBlock{
			&rtcp.LossRLEReportBlock{Chunks: make([]rtcp.Chunk, 2)}, &rtcp.DuplicateRLEReportBlock{Chunks: make([]rtcp.Chunk, 2)},
			&rtcp.PacketReceiptTimesReportBlock{ReceiptTime: make([]uint32, 2)}, &rtcp.ReceiverReferenceTimeReportBlock{},
			&rtcp.DLRRReportBlock{Reports: make([]rtcp.DLRRReport, 2)}, &rtcp.StatisticsSummaryReportBlock{}, &rtcp.VoIPMetricsReportBlock{},
			&rtcp.UnknownReportBlock{XRHeader: rtcp.XRHeader{BlockType: 99}, Bytes: make([]byte, 4)}}}
	}
	return nil
}

// setPattern writes a bit pattern into a leaf, shifted right by s bits (to stay within
// narrower wire fields).
func setPattern(l leaf, pat uint64, s uint) bool {
	switch l.v.Kind() {
	case reflect.Uint8, reflect.Uint16, reflect.Uint32, reflect.Uint64:
		bits := uint(l.v.Type().Bits())
		mask := uint64(1)<<bits - 1
		if bits == 64 {
			mask = ^uint64(0)
		}
		l.v.SetUint((pat & mask) >> s)
	case reflect.Int64:
		l.v.SetInt(int64(pat&0xFF>>s) * 250)
	case reflect.Bool:
		l.v.SetBool(pat&1 == 1)
	case reflect.String:
		n := l.v.Len()
		l.v.SetString(string(bytes.Repeat([]byte{byte(pat)}, n)))
	case reflect.Slice:
		for i := 0; i < l.v.Len(); i++ {
			l.v.Index(i).SetUint(uint64(byte(pat >> (8 * uint(i%8)))))
		}
	case reflect.Float32:
		l.v.SetFloat(float64(uint32(pat) >> (8 + s)))
	default:
		return false
	}
	return true
}

func runC03(c *core.Ctx) {
	if c.Shard == 0 && c.Replay == nil {
		if err := refSelfCheck(); err != nil {
			c.Res.HarnessErrors = append(c.Res.HarnessErrors, "oracle self-check failed: "+err.Error())
			return
		}
		c.Note("oracle self-check: reference encoder agrees with 8 third-party byte vectors")
	}
	o := gen.Opts{AllowKF: true}
	c.Section("values", c.N(1200000, 48000000), func(cs *core.Case) {
		c03Value(cs, valueOf(cs, o), "value")
	})
	// transport-cc values whose vector chunks carry only as many symbols as statuses remain (a list
	// shorter than the chunk can hold): the word is the symbols left-aligned and zero-filled
	c.Section("twcc-short-vectors", c.N(40000, 2000000), func(cs *core.Case) {
		r := cs.R
		t, m := gen.TWCCValue(r, gen.Opts{Small: true, NoBig: true})
		covered := 0
		trimmed := false
		for _, ch := range t.PacketChunks {
			switch v := ch.(type) {
			case *rtcp.RunLengthChunk:
				covered += int(v.RunLength)
			case *rtcp.StatusVectorChunk:
				left := len(m.Status) - covered
				if left < 0 {
					left = 0
				}
				if left < len(v.SymbolList) {
					v.SymbolList = v.SymbolList[:left:left]
					trimmed = true
				} else if r.Chance(1, 6) && len(v.SymbolList) > 1 {
					// trailing not-received statuses of any vector need not be listed either
					k := len(v.SymbolList)
					for k > 0 && v.SymbolList[k-1] == 0 {
						k--
					}
					if k < len(v.SymbolList) && covered+len(v.SymbolList) >= len(m.Status) {
						v.SymbolList = v.SymbolList[:k:k]
						trimmed = true
					}
				}
				covered += cap14(v)
			}
		}
		if trimmed {
			cs.Count("twcc-short-vectors/trimmed")
		}
		c03Value(cs, t, "twcc-short-vectors")
	})
	// values whose encoding has 64 KiB or more (where 16-bit byte arithmetic wraps)
	c.Section("big-values", c.N(400, 8000), func(cs *core.Case) {
		c03Value(cs, gen.BigPacket(cs.R), "big")
	})
	// packets obtained by decoding accepted datagrams, when they lie in D
	c.Section("decoded", c.N(100000, 4000000), func(cs *core.Case) {
		in := corpusDatagram(cs.R)
		if len(in) == 0 {
			return
		}
		ps, err, pan := gUnmarshal(in)
		if pan != "" || err != nil {
			return
		}
		for _, p := range ps {
			if _, raw := p.(*rtcp.RawPacket); raw {
				continue
			}
			c03Value(cs, p, "decoded")
		}
	})
	c.Section("lists-as-compound", c.N(60000, 3000000), func(cs *core.Case) {
		c03Value(cs, gen.CompoundValue(cs.R, o), "compound")
	})
	// walking values: every leaf field × pattern, for every kind (deterministic, shard 0 of each index)
	patterns := []uint64{^uint64(0), 0x8000000000000000 | 0x80000000 | 0x8000 | 0x80, 0xAAAAAAAAAAAAAAAA, 0x5555555555555555, 0x0102040810204080, 1}
	c.Section("walking", uint64(len(gen.Registered)), func(cs *core.Case) {
		k := gen.Registered[cs.Idx]
		base := walkBase(k)
		var leaves []leaf
		collectLeaves(reflect.ValueOf(base), "", &leaves)
		for li := range leaves {
			for _, pat := range patterns {
				for s := uint(0); s < 32; s++ {
					v := clonePacket(base)
					var ls []leaf
					collectLeaves(reflect.ValueOf(v), "", &ls)
					if !setPattern(ls[li], pat, s) {
						break
					}
					if k == gen.TWCC {
						fixTWCCHeader(v.(*rtcp.TransportLayerCC))
					}
					if _, err := ref.Encode(v, ref.RFC); err != nil {
						continue // outside D at this width: try a narrower pattern
					}
					c03Value(cs, v, "walking")
					cs.Count("walking-leaf/" + k.String() + leaves[li].path)
					break
				}
			}
		}
	})
	c.KnownWitness("KF1", func() (bool, string) {
		b, _ := (&rtcp.SliceLossIndication{SLI: []rtcp.SLIEntry{{First: 1, Number: 2, Picture: 3}}}).Marshal()
		return len(b) > 1 && b[1] != 206, fmt.Sprintf("SLI PT octet is %d, RFC 4585 says 206", b[1])
	})
	c.KnownWitness("KF2", func() (bool, string) {
		v := &rtcp.CCFeedbackReport{ReportBlocks: []rtcp.CCFeedbackReportBlock{{MetricBlocks: make([]rtcp.CCFeedbackMetricBlock, 4)}}}
		b, _ := v.Marshal()
		return len(b) >= 16 && (int(b[14])<<8|int(b[15])) != 4, fmt.Sprintf("CCFB num_reports for 4 metric blocks is %d, RFC 8888 says 4", int(b[14])<<8|int(b[15]))
	})
}

// fixTWCCHeader recomputes a consistent header after a field was changed (delta sizes do
// not change in the walking set, but keep the precondition explicit).
func fixTWCCHeader(t *rtcp.TransportLayerCC) {
	size := 20 + 2*len(t.PacketChunks)
	for _, d := range t.RecvDeltas {
		if d.Type == 2 {
			size += 2
		} else {
			size++
		}
	}
	pad := (4 - size%4) % 4
	size += pad
	t.Header.Count, t.Header.Type = 15, 205
	t.Header.Padding = pad > 0
	t.Header.Length = uint16(size/4 - 1)
}
