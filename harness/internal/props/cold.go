package props

import (
	"bytes"
	"context"
	"fmt"
	"os"
	"os/exec"
	"runtime"
	"strings"
	"sync"
	"time"

	"github.com/pion/rtcp"

	"verifharness/internal/core"
	"verifharness/internal/gen"
	"verifharness/internal/mon"
	"verifharness/internal/ref"
)

// Cold start: the first calls a process ever makes into the package are made by several
// goroutines at once. A lazily built table, a sync.Once with an unsynchronised fast path, a
// cache filled on first use: all of these are invisible to a long-lived worker, whose first
// call into any function happened long ago on one goroutine. Every case therefore starts a
// child process that prepares private work for G goroutines WITHOUT calling the library
// (the generators and the reference encoder never do), releases them together, and prints a
// digest of every result; a second child makes the same calls one after the other. The two
// outputs must agree, the concurrent child must not crash, and (race build) the race detector,
// whose log the children inherit, must stay silent.

// coldFamilies name what every goroutine does FIRST; the rest of its work list is a mix.
var coldFamilies = []string{"nack-list", "nack-range", "nack-pairs", "datagram", "own-decoder", "marshal", "string", "destination", "size-header", "compound"}

type coldTask struct {
	name string
	run  func() uint64
}

func coldDatagram(r *core.Rand, k gen.Kind) []byte {
	v := gen.Packet(r, k, gen.Opts{Small: true, NoBig: true})
	e, err := ref.Encode(v, ref.Lib)
	if err != nil {
		return []byte{0x80, 201, 0, 1, 0, 0, 0, byte(k)}
	}
	if r.Chance(1, 3) {
		if e2, err2 := ref.Encode(gen.Packet(r, gen.AnyKind(r), gen.Opts{Small: true, NoBig: true}), ref.Lib); err2 == nil {
			return append(cloneBytes(e.B), e2.B...)
		}
	}
	return e.B
}

// coldOne builds one task of the named family on private data.
func coldOne(r *core.Rand, fam string, k gen.Kind) coldTask {
	switch fam {
	case "nack-list":
		np := rtcp.NackPair{PacketID: r.B16(), LostPackets: rtcp.PacketBitmap(r.B16())}
		return coldTask{fam, func() uint64 { return core.DigestStr("L", fmt.Sprint(np.PacketList())) }}
	case "nack-range":
		np := rtcp.NackPair{PacketID: r.B16(), LostPackets: rtcp.PacketBitmap(r.B16())}
		stop := r.Intn(18)
		return coldTask{fam, func() uint64 {
			var seen []uint16
			np.Range(func(s uint16) bool { seen = append(seen, s); return len(seen) != stop })
			return core.DigestStr("R", fmt.Sprint(seen))
		}}
	case "nack-pairs":
		seqs := make([]uint16, r.Intn(40))
		base := r.B16()
		for i := range seqs {
			base += uint16(1 + r.Intn(20))
			seqs[i] = base
		}
		return coldTask{fam, func() uint64 { return core.DigestStr("P", fmt.Sprint(rtcp.NackPairsFromSequenceNumbers(seqs))) }}
	case "datagram":
		in := coldDatagram(r, k)
		return coldTask{fam + "/" + k.String(), func() uint64 {
			ps, err := rtcp.Unmarshal(in)
			return core.DigestStr("U", mon.Dump(ps), errStr(err))
		}}
	case "own-decoder":
		in := coldDatagram(r, k)
		return coldTask{fam + "/" + k.String(), func() uint64 {
			f := gen.New(k)
			err := f.Unmarshal(in)
			return core.DigestStr("O", mon.Dump(f), errStr(err))
		}}
	case "compound":
		var in []byte
		for _, m := range *gen.CompoundValue(r, gen.Opts{Small: true, NoBig: true}) {
			if e, err := ref.Encode(m, ref.Lib); err == nil {
				in = append(in, e.B...)
			}
		}
		return coldTask{fam, func() uint64 {
			var cp rtcp.CompoundPacket
			err := cp.Unmarshal(in)
			cn, cerr := "", error(nil)
			var verr error
			if err == nil {
				verr = cp.Validate()
				cn, cerr = cp.CNAME()
			}
			return core.DigestStr("C", mon.Dump(&cp), errStr(err), errStr(verr), cn, errStr(cerr))
		}}
	}
	p := gen.Packet(r, k, gen.Opts{Small: true, NoBig: true, AllowKF: true})
	if x, ok := p.(*rtcp.ExtendedReport); ok {
		// every goroutine's report has a block of every kind and an unknown block of one of a few
		// types, so that the first use of every per-kind (and per-type) path is a concurrent one
		x.Reports = nil
		for bk := gen.XRKind(0); bk < gen.NumXRKinds; bk++ {
			x.Reports = append(x.Reports, gen.XRBlock(r, bk, false))
		}
		x.Reports = append(x.Reports, &rtcp.UnknownReportBlock{XRHeader: rtcp.XRHeader{BlockType: rtcp.BlockTypeType(r.Pick(0, 8, 255))}, Bytes: r.Bytes(4 * r.Intn(3))})
	}
	switch fam {
	case "marshal":
		return coldTask{fam + "/" + k.String(), func() uint64 {
			b, err := p.Marshal()
			return core.Digest([]byte("M"), b, []byte(errStr(err)))
		}}
	case "string":
		return coldTask{fam + "/" + k.String(), func() uint64 {
			if s, ok := p.(fmt.Stringer); ok {
				return core.DigestStr("T", s.String())
			}
			return 0
		}}
	case "destination":
		return coldTask{fam + "/" + k.String(), func() uint64 { return core.DigestStr("D", fmt.Sprint(p.DestinationSSRC())) }}
	default: // size-header
		return coldTask{"size-header/" + k.String(), func() uint64 {
			d := core.DigestStr("S", fmt.Sprint(p.MarshalSize()))
			if h, ok := p.(headerer); ok {
				d ^= core.DigestStr("H", fmt.Sprintf("%+v", h.Header()))
			}
			return d
		}}
	}
}

// coldPlan is the deterministic work of one case: per goroutine a list of tasks whose first
// element belongs to the case's family (and kind).
func coldPlan(seed, idx uint64, only []string) (g int, plan [][]coldTask, fam string, kind gen.Kind) {
	fams := coldFamilies
	if len(only) > 0 {
		fams = only
	}
	r := core.CaseRand(seed, "cold", "cold-start", idx)
	// the (family, kind) combinations in turn: one per family that does not depend on a packet
	// type, one per type for the others
	type combo struct {
		fam  string
		kind gen.Kind
	}
	var combos []combo
	for _, f := range fams {
		if strings.HasPrefix(f, "nack-") || f == "compound" {
			combos = append(combos, combo{f, gen.NACK})
			continue
		}
		for k := gen.Kind(0); k < gen.NumKinds; k++ {
			combos = append(combos, combo{f, k})
		}
	}
	cb := combos[idx%uint64(len(combos))]
	fam, kind = cb.fam, cb.kind
	g = r.Pick(2, 4, 8, 16, 32)
	plan = make([][]coldTask, g)
	for i := range plan {
		plan[i] = append(plan[i], coldOne(r, fam, kind))
		for n := r.Intn(6); n > 0; n-- {
			f := fam
			k := kind
			if r.Bool() {
				f = fams[r.Intn(len(fams))]
			}
			if r.Bool() {
				k = gen.AnyKind(r)
			}
			plan[i] = append(plan[i], coldOne(r, f, k))
		}
	}
	return
}

// ColdMain is the entry point of the child: mode "conc" or "seq", seed, index, family filter.
func ColdMain(args []string) int {
	if len(args) < 3 {
		return 2
	}
	var seed, idx uint64
	fmt.Sscan(args[1], &seed)
	fmt.Sscan(args[2], &idx)
	var only []string
	if len(args) > 3 && args[3] != "" {
		only = strings.Split(args[3], ",")
	}
	g, plan, _, _ := coldPlan(seed, idx, only)
	res := make([][]uint64, g)
	for i := range res {
		res[i] = make([]uint64, len(plan[i]))
	}
	if args[0] == "conc" {
		runtime.GOMAXPROCS(16)
		var wg sync.WaitGroup
		start := make(chan struct{})
		for i := 0; i < g; i++ {
			wg.Add(1)
			go func(i int) {
				defer wg.Done()
				<-start
				for j, t := range plan[i] {
					res[i][j] = t.run()
				}
			}(i)
		}
		close(start)
		wg.Wait()
	} else {
		for i := range plan {
			for j, t := range plan[i] {
				res[i][j] = t.run()
			}
		}
	}
	var out bytes.Buffer
	for i := range res {
		for j, d := range res[i] {
			fmt.Fprintf(&out, "%d.%d.%s=%x\n", i, j, plan[i][j].name, d)
		}
	}
	os.Stdout.Write(out.Bytes())
	return 0
}

// coldSection registers the cold-start section; only restricts the families (nil: all).
func coldSection(c *core.Ctx, n uint64, only []string) {
	exe, err := os.Executable()
	if err != nil {
		c.Res.HarnessErrors = append(c.Res.HarnessErrors, "cold-start: "+err.Error())
		return
	}
	filter := strings.Join(only, ",")
	c.Section("cold-start", n, func(cs *core.Case) {
		c.WatchdogOff(true)
		defer c.WatchdogOff(false)
		g, plan, fam, kind := coldPlan(c.Seed, cs.Idx, only)
		calls := 0
		for _, p := range plan {
			calls += len(p)
		}
		run := func(mode string) (string, string, int, bool) {
			ctx, cancel := context.WithTimeout(context.Background(), 300*time.Second)
			defer cancel()
			cmd := exec.CommandContext(ctx, exe, "cold", mode, fmt.Sprint(c.Seed), fmt.Sprint(cs.Idx), filter)
			// race build: do not sleep a second at exit; reports still go to the inherited log_path
			cmd.Env = append(os.Environ(), strings.TrimSpace("GORACE="+os.Getenv("GORACE")+" atexit_sleep_ms=0"))
			var so, se bytes.Buffer
			cmd.Stdout, cmd.Stderr = &so, &se
			err := cmd.Run()
			code := 0
			if err != nil {
				code = -1
				if ee, ok := err.(*exec.ExitError); ok {
					code = ee.ExitCode()
				}
			}
			return so.String(), se.String(), code, ctx.Err() != nil
		}
		seqOut, seqErr, seqCode, seqTO := run("seq")
		concOut, concErr, concCode, concTO := run("conc")
		if seqTO || concTO {
			c.Res.HarnessErrors = append(c.Res.HarnessErrors, "cold-start: child exceeded the 300 s wall-clock watchdog (inconclusive)")
			return
		}
		cs.Eval(uint64(2 * calls))
		cs.Count("cold-start/" + fam)
		cs.Count("cold-start-children")
		cs.Count("cold-start-children")
		cs.Distinct(core.DigestStr("cold", fam, kind.String(), seqOut))
		det := func() core.W {
			return core.W{"first_call_of_every_goroutine": fam, "kind": kind.String(), "goroutines": g, "calls": calls,
				"replay_hint": fmt.Sprintf("vcheck cold conc %d %d %q", c.Seed, cs.Idx, filter)}
		}
		tailOf := func(s string) string {
			if len(s) > 3000 {
				return s[len(s)-3000:]
			}
			return s
		}
		if seqCode != 0 {
			// a sequential cold start that fails is not about concurrency: report what happened
			d := det()
			d["exit_code"], d["stderr"] = seqCode, tailOf(seqErr)
			cs.Fail("cold-start/sequential-child-failed", d)
			return
		}
		// 66 is the race detector's exit code with halt_on_error=0: the reports are in the log
		if concCode != 0 && concCode != 66 {
			d := det()
			d["exit_code"], d["stderr"] = concCode, tailOf(concErr)
			cs.Fail("cold-start/concurrent-child-crashed", d)
			return
		}
		if concOut != seqOut {
			d := det()
			sl, cl := strings.Split(seqOut, "\n"), strings.Split(concOut, "\n")
			var diff []string
			for i := 0; i < len(sl) && i < len(cl) && len(diff) < 6; i++ {
				if sl[i] != cl[i] {
					diff = append(diff, "sequential "+sl[i]+" / concurrent "+cl[i])
				}
			}
			d["differing_results"] = diff
			d["lines"] = fmt.Sprintf("%d sequential, %d concurrent", len(sl), len(cl))
			cs.Fail("cold-start/result-differs-from-sequential", d)
		}
	})
}
