package props

import (
	"fmt"

	"github.com/pion/rtcp"

	"verifharness/internal/core"
	"verifharness/internal/gen"
	"verifharness/internal/mon"
	"verifharness/internal/ref"
)

func init() {
	core.Register(&core.PropDef{
		ID:        "C16",
		Run:       runC16,
		Technique: "exhaustive run-time enumeration of each fixed-width wire unit through the public API, both directions (value -> octets -> value, canonical octets -> value -> octets)",
		Rule: "Header: all 2^32 raw words (thorough) / 2^26 stride sample + all P x count x PT with boundary lengths (quick), counts 32..255 rejected, inputs of 0..3 octets rejected; RunLengthChunk and StatusVectorChunk: all 2^15 words each and all field tuples; RecvDelta: all 2^8 + 2^16; " +
			"24-bit cumulative lost via ReceptionReport: all 2^24; CCFB metric block via a 2-metric report: all 2^16 in each slot; XR Chunk accessors: all 2^16 vs RFC 3611 4.1.1-4.1.3; NACK pair and SLI word via single-entry packets: 2^22 sample (quick) / all 2^32 (thorough); FIR entry: stratified 2^24 (quick) / 2^32 (thorough: every value of the top 24 SSRC bits x all 256 sequence numbers) of 2^40; " +
			"non-trivial = every unit value; distinct by construction",
		Assumptions: []string{
			"canonical wire units: run-length chunk words have T=0; vector chunk words T=1; a not-received CCFB metric block is all zero; FIR entries have zero reserved octets; SLI/NACK words are all canonical",
			"FIR's 2^40 domain is sampled (stratified over the SSRC bits, all 256 sequence numbers), as the property says",
		},
		MinDistinctQuick: 1 << 24, MinDistinctThorough: 1 << 32,
	})
}

func runC16(c *core.Ctx) {
	// ---- Header ----
	hdrWord := func(cs *core.Case, w uint32) bool {
		b := [4]byte{byte(w >> 24), byte(w >> 16), byte(w >> 8), byte(w)}
		var h rtcp.Header
		err := h.Unmarshal(b[:])
		if b[0]>>6 != 2 {
			if err == nil {
				cs.Fail("header/bad-version-accepted", core.W{"word": fmt.Sprintf("%08x", w)})
				return false
			}
			return true
		}
		if err != nil {
			cs.Fail("header/rejected", core.W{"word": fmt.Sprintf("%08x", w), "error": err.Error()})
			return false
		}
		if h.Padding != (b[0]>>5&1 == 1) || h.Count != b[0]&0x1F || uint8(h.Type) != b[1] || h.Length != uint16(b[2])<<8|uint16(b[3]) {
			cs.Fail("header/fields", core.W{"word": fmt.Sprintf("%08x", w), "decoded": vdump(h)})
			return false
		}
		out, merr := h.Marshal()
		if merr != nil || len(out) != 4 || out[0] != b[0] || out[1] != b[1] || out[2] != b[2] || out[3] != b[3] {
			cs.Fail("header/reencode", core.W{"word": fmt.Sprintf("%08x", w), "reencoded": mon.Hex(out, 8), "error": errStr(merr)})
			return false
		}
		// the decoded value is a function of the four octets alone: a receiver that already holds
		// another header (all fields different) must end up with the same value
		used := rtcp.Header{Padding: !h.Padding, Count: ^h.Count & 0x1F, Type: ^h.Type, Length: ^h.Length}
		if err := used.Unmarshal(b[:]); err != nil || used != h {
			cs.Fail("header/depends-on-receiver", core.W{"word": fmt.Sprintf("%08x", w), "fresh": vdump(h), "into_used_receiver": vdump(used)})
			return false
		}
		return true
	}
	if c.Thorough() {
		c.Exhaustive("Header: all 2^32 raw words", 1<<32)
		c.Section("header-all-words", 1<<16, func(cs *core.Case) {
			hi := uint32(cs.Idx) << 16
			for lo := uint32(0); lo < 1<<16; lo++ {
				if !hdrWord(cs, hi|lo) {
					return
				}
			}
			cs.Eval(2 << 16)
			cs.DistinctN(1 << 16)
		})
	} else {
		c.Exhaustive("Header: all 2^16 first-half words (V,P,count,PT) x 18 boundary lengths", 18<<16)
		c.Section("header-first-half", 1<<8, func(cs *core.Case) {
			for lo := uint32(0); lo < 1<<8; lo++ {
				top := uint32(cs.Idx)<<8 | lo
				for _, l := range []uint32{0, 1, 2, 3, 0xFF, 0x100, 0x3FFF, 0x4000, 0x4001, 0x7FFF, 0x8000, 0x8001, 0xFFFE, 0xFFFF, 0x00FF, 0xFF00, 0x5555, 0xAAAA} {
					if !hdrWord(cs, top<<16|l) {
						return
					}
				}
			}
			cs.Eval(2 * 18 << 8)
			cs.DistinctN(18 << 8)
		})
		c.Section("header-stride", 1<<10, func(cs *core.Case) {
			// 2^26 words: stride 61 with a PRNG phase per block of 2^22
			w := uint32(cs.Idx)<<22 + uint32(cs.R.Intn(61))
			end := uint32(cs.Idx+1)<<22 - 1
			n := uint64(0)
			for ; w <= end && w >= uint32(cs.Idx)<<22; w += 61 {
				if !hdrWord(cs, w) {
					return
				}
				n++
			}
			cs.Eval(2 * n)
			cs.DistinctN(n)
		})
	}
	c.Exhaustive("Header value->octets: all P x count 0..255 x PT 0..255 (12 lengths each, results overwritten and re-marshalled)", 2*256*256)
	c.Section("header-values", 512, func(cs *core.Case) {
		p := cs.Idx&1 == 1
		cnt := uint8(cs.Idx >> 1)
		for pt := 0; pt < 256; pt++ {
			for _, l := range []uint16{0, 1, 2, 3, 4, 5, 6, 7, 0x7FFF, 0x8000, 0xFFFF, uint16(pt)<<8 | uint16(cnt)} {
				h := rtcp.Header{Padding: p, Count: cnt, Type: rtcp.PacketType(pt), Length: l}
				out, err := h.Marshal()
				if cnt > 31 {
					if err == nil || len(out) != 0 {
						cs.Fail("header/count-above-31-encoded", core.W{"header": vdump(h), "octets": mon.Hex(out, 8)})
						return
					}
					continue
				}
				var d rtcp.Header
				if err != nil || len(out) != 4 || d.Unmarshal(out) != nil || d != h {
					cs.Fail("header/value-roundtrip", core.W{"header": vdump(h), "octets": mon.Hex(out, 8), "error": errStr(err), "decoded": vdump(d)})
					return
				}
				// the four octets belong to the caller: it writes into them and appends to them (a
				// packet encoder does exactly that); the same header marshals to the same octets again
				first := [4]byte{out[0], out[1], out[2], out[3]}
				for i := range out {
					out[i] = out[i]*167 + 13
				}
				_ = append(out, 0xDE, 0xAD, 0xBE, 0xEF)
				again, err2 := h.Marshal()
				if err2 != nil || len(again) != 4 || [4]byte{again[0], again[1], again[2], again[3]} != first {
					cs.Fail("header/result-not-caller-owned", core.W{"header": vdump(h), "first_octets": mon.Hex(first[:], 8), "after_caller_wrote_into_the_first_result": mon.Hex(again, 8), "error": errStr(err2)})
					return
				}
			}
		}
		cs.Eval(3 * 12 * 256)
		cs.DistinctN(12 * 256)
		if cs.Idx == 0 {
			for n := 0; n < 4; n++ {
				var d rtcp.Header
				if d.Unmarshal(make([]byte, n)) == nil || d.Unmarshal([]byte{0x80, 200, 0, 0}[:n]) == nil {
					cs.Fail("header/short-accepted", core.W{"len": n})
				}
			}
			cs.Eval(8)
		}
	})

	// ---- TWCC chunks ----
	c.Exhaustive("RunLengthChunk: all 2^15 canonical words and all (symbol, run length) tuples; StatusVectorChunk: all 2^15 words and all symbol lists", 4<<15)
	c.Section("twcc-chunks", 1<<7, func(cs *core.Case) {
		// one StatusVectorChunk variable decoded into again and again; the previous result is kept
		// by value (as a caller appending chunks to a list does) and must stay what it was
		var reuse, kept rtcp.StatusVectorChunk
		var keptSyms []uint16
		var keptWord uint16
		haveKept := false
		for lo := uint16(0); lo < 1<<8; lo++ {
			w := uint16(cs.Idx)<<8 | lo // 15-bit payload
			// run-length: canonical word has T=0
			var rl rtcp.RunLengthChunk
			b := []byte{byte(w >> 8), byte(w)}
			if err := rl.Unmarshal(b); err != nil || rl.PacketStatusSymbol != w>>13&3 || rl.RunLength != w&0x1FFF || rl.Type != 0 {
				cs.Fail("runlength/decode", core.W{"word": fmt.Sprintf("%04x", w), "decoded": vdump(rl), "error": errStr(err)})
				return
			}
			usedRL := rtcp.RunLengthChunk{Type: 1, PacketStatusSymbol: ^rl.PacketStatusSymbol, RunLength: ^rl.RunLength}
			if err := usedRL.Unmarshal(b); err != nil || usedRL.Type != rl.Type || usedRL.PacketStatusSymbol != rl.PacketStatusSymbol || usedRL.RunLength != rl.RunLength {
				cs.Fail("runlength/depends-on-receiver", core.W{"word": fmt.Sprintf("%04x", w), "fresh": vdump(rl), "into_used_receiver": vdump(usedRL)})
				return
			}
			out, err := rl.Marshal()
			if err != nil || len(out) != 2 || out[0] != b[0] || out[1] != b[1] {
				cs.Fail("runlength/reencode", core.W{"word": fmt.Sprintf("%04x", w), "reencoded": mon.Hex(out, 4), "error": errStr(err)})
				return
			}
			scribbleOwned(out)
			v := rtcp.RunLengthChunk{Type: 0, PacketStatusSymbol: w >> 13 & 3, RunLength: w & 0x1FFF}
			o2, err2 := v.Marshal()
			var d2 rtcp.RunLengthChunk
			if err2 != nil || d2.Unmarshal(o2) != nil || d2.PacketStatusSymbol != v.PacketStatusSymbol || d2.RunLength != v.RunLength {
				cs.Fail("runlength/value-roundtrip", core.W{"value": vdump(v), "octets": mon.Hex(o2, 4)})
				return
			}
			scribbleOwned(o2)
			// status vector: canonical word has T=1
			vw := 0x8000 | w
			vb := []byte{byte(vw >> 8), byte(vw)}
			var sv rtcp.StatusVectorChunk
			if err := sv.Unmarshal(vb); err != nil {
				cs.Fail("vector/decode", core.W{"word": fmt.Sprintf("%04x", vw), "error": err.Error()})
				return
			}
			two := vw>>14&1 == 1
			okSym := sv.Type == 1 && (sv.SymbolSize == 1) == two
			if two {
				okSym = okSym && len(sv.SymbolList) == 7
				for i := 0; okSym && i < 7; i++ {
					okSym = sv.SymbolList[i] == vw>>uint(12-2*i)&3
				}
			} else {
				okSym = okSym && len(sv.SymbolList) == 14
				for i := 0; okSym && i < 14; i++ {
					okSym = sv.SymbolList[i] == vw>>uint(13-i)&1
				}
			}
			if !okSym {
				cs.Fail("vector/symbols", core.W{"word": fmt.Sprintf("%04x", vw), "decoded": vdump(sv)})
				return
			}
			vo, verr := sv.Marshal()
			if verr != nil || len(vo) != 2 || vo[0] != vb[0] || vo[1] != vb[1] {
				cs.Fail("vector/reencode", core.W{"word": fmt.Sprintf("%04x", vw), "reencoded": mon.Hex(vo, 4), "error": errStr(verr)})
				return
			}
			scribbleOwned(vo)
			if err := reuse.Unmarshal(vb); err != nil || reuse.Type != sv.Type || reuse.SymbolSize != sv.SymbolSize || !mon.SemEqual(reuse.SymbolList, sv.SymbolList) {
				cs.Fail("vector/depends-on-receiver", core.W{"word": fmt.Sprintf("%04x", vw), "fresh": vdump(sv), "into_used_receiver": vdump(reuse), "error": errStr(err)})
				return
			}
			if haveKept {
				ko, kerr := kept.Marshal()
				if kerr != nil || len(ko) != 2 || uint16(ko[0])<<8|uint16(ko[1]) != keptWord || !mon.SemEqual(kept.SymbolList, keptSyms) {
					cs.Fail("vector/kept-result-changed", core.W{"kept_word": fmt.Sprintf("%04x", keptWord), "next_word_decoded_into_same_variable": fmt.Sprintf("%04x", vw),
						"kept_symbols_then": keptSyms, "kept_symbols_now": kept.SymbolList, "kept_reencodes_to": mon.Hex(ko, 4), "error": errStr(kerr)})
					return
				}
			}
			kept, keptSyms, keptWord, haveKept = reuse, append([]uint16(nil), reuse.SymbolList...), vw, true
			// value -> octets -> value with a freshly built list
			fresh := rtcp.StatusVectorChunk{Type: 1, SymbolSize: sv.SymbolSize, SymbolList: append([]uint16(nil), sv.SymbolList...)}
			fo, ferr := fresh.Marshal()
			var fd rtcp.StatusVectorChunk
			if ferr != nil || fd.Unmarshal(fo) != nil || !mon.SemEqual(fd.SymbolList, fresh.SymbolList) || fd.SymbolSize != fresh.SymbolSize {
				cs.Fail("vector/value-roundtrip", core.W{"value": vdump(fresh), "octets": mon.Hex(fo, 4)})
				return
			}
			scribbleOwned(fo)
		}
		cs.Eval(8 << 8)
		cs.DistinctN(4 << 8)
	})
	// status vector chunks whose list is shorter than the chunk can hold (the last chunk of a
	// feedback usually is): every list of 0..14 one-bit and 0..7 two-bit symbols. The word is the
	// symbols left-aligned and zero-filled; decoding it gives the list padded with zeros.
	c.Exhaustive("StatusVectorChunk: all symbol lists of length 0..14 (one bit) and 0..7 (two bits)", 32767+21845)
	c.Section("twcc-short-vectors", 15+8, func(cs *core.Case) {
		two := cs.Idx >= 15
		n := int(cs.Idx)
		bits, full := uint(1), 14
		if two {
			n, bits, full = int(cs.Idx)-15, 2, 7
		}
		for x := 0; x < 1<<(bits*uint(n)); x++ {
			list := make([]uint16, n)
			for i := range list {
				list[i] = uint16(x>>(bits*uint(n-1-i))) & (1<<bits - 1)
			}
			v := rtcp.StatusVectorChunk{Type: 1, SymbolSize: uint16(bits - 1), SymbolList: list}
			want, _ := ref.TWCCChunkWord(&v)
			out, err := v.Marshal()
			if err != nil || len(out) != 2 || uint16(out[0])<<8|uint16(out[1]) != want {
				cs.Fail("vector/short-list-encode", core.W{"value": vdump(v), "octets": mon.Hex(out, 4), "expected_word": fmt.Sprintf("%04x", want), "error": errStr(err)})
				return
			}
			var d rtcp.StatusVectorChunk
			ok := d.Unmarshal(out) == nil && len(d.SymbolList) == full
			for i := 0; ok && i < full; i++ {
				w := uint16(0)
				if i < n {
					w = list[i]
				}
				ok = d.SymbolList[i] == w
			}
			if !ok {
				cs.Fail("vector/short-list-decode", core.W{"value": vdump(v), "octets": mon.Hex(out, 4), "decoded": vdump(d)})
				return
			}
		}
		cs.Eval(2 << (bits * uint(n)))
		cs.DistinctN(1 << (bits * uint(n)))
	})
	// chunk decoders take exactly 2 octets
	c.Once("twcc-chunk-lengths", func(cs *core.Case) {
		for n := 0; n <= 5; n++ {
			if n == 2 {
				continue
			}
			var rl rtcp.RunLengthChunk
			var sv rtcp.StatusVectorChunk
			if rl.Unmarshal(make([]byte, n)) == nil || sv.Unmarshal(make([]byte, n)) == nil {
				cs.Fail("chunk/wrong-length-accepted", core.W{"len": n})
			}
			var rd rtcp.RecvDelta
			if (n == 0 || n > 2) && rd.Unmarshal(make([]byte, n)) == nil {
				cs.Fail("delta/wrong-length-accepted", core.W{"len": n})
			}
			cs.Eval(3)
		}
	})
	// ---- RecvDelta ----
	c.Exhaustive("RecvDelta: all 2^8 small and 2^16 large wire values, both directions", 256+65536)
	c.Section("recv-delta", 1<<8, func(cs *core.Case) {
		hi := uint16(cs.Idx) << 8
		if cs.Idx == 0 {
			for v := 0; v < 256; v++ {
				var d rtcp.RecvDelta
				if err := d.Unmarshal([]byte{byte(v)}); err != nil || d.Type != 1 || d.Delta != int64(v)*250 {
					cs.Fail("delta/small-decode", core.W{"octet": v, "decoded": vdump(d)})
					return
				}
				out, err := d.Marshal()
				if err != nil || len(out) != 1 || out[0] != byte(v) {
					cs.Fail("delta/small-reencode", core.W{"octet": v, "reencoded": mon.Hex(out, 4), "error": errStr(err)})
					return
				}
				scribbleOwned(out) // the result is the caller's: it may overwrite it and append into its spare capacity
				v2 := rtcp.RecvDelta{Type: 1, Delta: int64(v) * 250}
				o2, e2 := v2.Marshal()
				var d2 rtcp.RecvDelta
				if e2 != nil || d2.Unmarshal(o2) != nil || d2 != v2 {
					cs.Fail("delta/small-value-roundtrip", core.W{"value": vdump(v2)})
					return
				}
				scribbleOwned(o2)
			}
			cs.Eval(4 * 256)
			cs.DistinctN(256)
		}
		for lo := uint16(0); lo < 1<<8; lo++ {
			w := hi | lo
			var d rtcp.RecvDelta
			if err := d.Unmarshal([]byte{byte(w >> 8), byte(w)}); err != nil || d.Type != 2 || d.Delta != int64(int16(w))*250 {
				cs.Fail("delta/large-decode", core.W{"word": fmt.Sprintf("%04x", w), "decoded": vdump(d)})
				return
			}
			usedD := rtcp.RecvDelta{Type: 1, Delta: ^d.Delta}
			if err := usedD.Unmarshal([]byte{byte(w >> 8), byte(w)}); err != nil || usedD != d {
				cs.Fail("delta/depends-on-receiver", core.W{"word": fmt.Sprintf("%04x", w), "fresh": vdump(d), "into_used_receiver": vdump(usedD)})
				return
			}
			out, err := d.Marshal()
			if err != nil || len(out) != 2 || out[0] != byte(w>>8) || out[1] != byte(w) {
				cs.Fail("delta/large-reencode", core.W{"word": fmt.Sprintf("%04x", w), "reencoded": mon.Hex(out, 4), "error": errStr(err)})
				return
			}
			scribbleOwned(out)
			v2 := rtcp.RecvDelta{Type: 2, Delta: int64(int16(w)) * 250}
			o2, e2 := v2.Marshal()
			var d2 rtcp.RecvDelta
			if e2 != nil || d2.Unmarshal(o2) != nil || d2 != v2 {
				cs.Fail("delta/large-value-roundtrip", core.W{"value": vdump(v2)})
				return
			}
			scribbleOwned(o2)
		}
		cs.Eval(4 << 8)
		cs.DistinctN(1 << 8)
	})
	// ---- 24-bit cumulative lost ----
	c.Exhaustive("cumulative lost: all 2^24 values through ReceptionReport, both directions", 1<<24)
	c.Section("total-lost", 1<<12, func(cs *core.Case) {
		base := rtcp.ReceptionReport{SSRC: cs.R.U32(), FractionLost: cs.R.U8(), LastSequenceNumber: cs.R.U32(), Jitter: cs.R.U32(), LastSenderReport: cs.R.U32(), Delay: cs.R.U32()}
		wire := make([]byte, 24)
		b0, _ := base.Marshal()
		copy(wire, b0)
		for lo := uint32(0); lo < 1<<12; lo++ {
			tl := uint32(cs.Idx)<<12 | lo
			v := base
			v.TotalLost = tl
			out, err := v.Marshal()
			if err != nil || len(out) != 24 || out[5] != byte(tl>>16) || out[6] != byte(tl>>8) || out[7] != byte(tl) || out[4] != base.FractionLost {
				cs.Fail("total-lost/encode", core.W{"total_lost": tl, "octets": mon.Hex(out, 24), "error": errStr(err)})
				return
			}
			var d rtcp.ReceptionReport
			if d.Unmarshal(out) != nil || d != v {
				cs.Fail("total-lost/value-roundtrip", core.W{"value": vdump(v), "decoded": vdump(d)})
				return
			}
			// octets -> value -> octets
			wire[5], wire[6], wire[7] = byte(tl>>16), byte(tl>>8), byte(tl)
			d2 := rtcp.ReceptionReport{SSRC: ^base.SSRC, FractionLost: ^base.FractionLost, TotalLost: ^tl, LastSequenceNumber: 7, Jitter: 7, LastSenderReport: 7, Delay: 7} // a used receiver
			if d2.Unmarshal(wire) != nil || d2.TotalLost != tl || d2 != v {
				cs.Fail("total-lost/decode", core.W{"octets": mon.Hex(wire, 24), "decoded": vdump(d2)})
				return
			}
		}
		cs.Eval(3 << 12)
		cs.DistinctN(1 << 12)
	})
	// ---- CCFB metric block ----
	c.Exhaustive("CCFB metric block: all 2^16 words in each of the 2 slots of a 2-metric report", 2<<16)
	c.Section("ccfb-metric", 1<<8, func(cs *core.Case) {
		in := []byte{0x8B, 205, 0, 5, 0, 0, 0, 1, 0, 0, 0, 2, 0, 10, 0, 2, 0x80, 0, 0x80, 0, 0, 0, 0, 9}
		if ref.LibCCFBMinus1 {
			in[15] = 1 // the library's dialect of num_reports (known finding KF2); the metric words are what is judged here
		}
		for lo := uint16(0); lo < 1<<8; lo++ {
			w := uint16(cs.Idx)<<8 | lo
			for slot := 0; slot < 2; slot++ {
				b := cloneBytes(in)
				b[16+2*slot], b[17+2*slot] = byte(w>>8), byte(w)
				var d rtcp.CCFeedbackReport
				if err := d.Unmarshal(b); err != nil || len(d.ReportBlocks) != 1 || len(d.ReportBlocks[0].MetricBlocks) != 2 {
					cs.Fail("metric/decode", core.W{"input_hex": mon.Hex(b, 24), "error": errStr(err), "decoded": vdump(d)})
					return
				}
				m := d.ReportBlocks[0].MetricBlocks[slot]
				want := rtcp.CCFeedbackMetricBlock{}
				if w>>15 == 1 {
					want = rtcp.CCFeedbackMetricBlock{Received: true, ECN: rtcp.ECN(w >> 13 & 3), ArrivalTimeOffset: w & 0x1FFF}
				}
				if m != want || d.ReportBlocks[0].MetricBlocks[1-slot] != (rtcp.CCFeedbackMetricBlock{Received: true}) {
					cs.Fail("metric/fields", core.W{"word": fmt.Sprintf("%04x", w), "slot": slot, "decoded": vdump(d.ReportBlocks[0].MetricBlocks)})
					return
				}
				out, err := d.Marshal()
				canonical := w>>15 == 1 || w == 0
				if err != nil || len(out) != len(b) {
					cs.Fail("metric/reencode", core.W{"word": fmt.Sprintf("%04x", w), "error": errStr(err), "reencoded": mon.Hex(out, 24)})
					return
				}
				if canonical && (out[16+2*slot] != byte(w>>8) || out[17+2*slot] != byte(w)) {
					cs.Fail("metric/reencode", core.W{"word": fmt.Sprintf("%04x", w), "reencoded": mon.Hex(out, 24)})
					return
				}
				// value -> octets -> value
				v := rtcp.CCFeedbackReport{SenderSSRC: 1, ReportTimestamp: 9, ReportBlocks: []rtcp.CCFeedbackReportBlock{{MediaSSRC: 2, BeginSequence: 10, MetricBlocks: []rtcp.CCFeedbackMetricBlock{{Received: true}, {Received: true}}}}}
				v.ReportBlocks[0].MetricBlocks[slot] = want
				vo, verr := v.Marshal()
				var vd rtcp.CCFeedbackReport
				if verr != nil || vd.Unmarshal(vo) != nil || !mon.SemEqual(&vd, &v) {
					cs.Fail("metric/value-roundtrip", core.W{"value": vdump(v), "octets": mon.Hex(vo, 24)})
					return
				}
			}
		}
		cs.Eval(8 << 8)
		cs.DistinctN(2 << 8)
	})
	// ---- XR chunk accessors ----
	c.Exhaustive("XR Chunk accessors Type/RunType/Value for all 2^16 values", 1<<16)
	c.Section("xr-chunk", 1<<8, func(cs *core.Case) {
		for lo := uint16(0); lo < 1<<8; lo++ {
			w := uint16(cs.Idx)<<8 | lo
			ch := rtcp.Chunk(w)
			var wantType rtcp.ChunkType
			var wantVal uint
			switch {
			case w == 0:
				wantType, wantVal = rtcp.TerminatingNullChunkType, 0
			case w>>15 == 1:
				wantType, wantVal = rtcp.BitVectorChunkType, uint(w&0x7FFF)
			default:
				wantType, wantVal = rtcp.RunLengthChunkType, uint(w&0x3FFF)
			}
			rt, rerr := ch.RunType()
			okRun := (rerr == nil) == (wantType == rtcp.RunLengthChunkType)
			if rerr == nil {
				okRun = okRun && rt == uint(w>>14&1)
			}
			if ch.Type() != wantType || ch.Value() != wantVal || !okRun {
				cs.Fail("xr-chunk/accessors", core.W{"chunk": fmt.Sprintf("%04x", w), "type": ch.Type(), "value": ch.Value(), "run_type": rt, "run_type_error": errStr(rerr)})
				return
			}
			_ = ch.String() // totality of String() is C17's; its format is not part of any property
		}
		cs.Eval(4 << 8)
		cs.DistinctN(1 << 8)
	})
	// ---- NACK pair / SLI word through single-entry packets ----
	pairWord := func(cs *core.Case, w uint32, nack *rtcp.TransportLayerNack, sli *rtcp.SliceLossIndication) bool {
		nack.Nacks[0] = rtcp.NackPair{PacketID: uint16(w >> 16), LostPackets: rtcp.PacketBitmap(w)}
		out, err := nack.Marshal()
		if err != nil || len(out) != 16 || out[12] != byte(w>>24) || out[13] != byte(w>>16) || out[14] != byte(w>>8) || out[15] != byte(w) {
			cs.Fail("nack/encode", core.W{"word": fmt.Sprintf("%08x", w), "octets": mon.Hex(out, 16), "error": errStr(err)})
			return false
		}
		var d rtcp.TransportLayerNack
		if d.Unmarshal(out) != nil || len(d.Nacks) != 1 || d.Nacks[0] != nack.Nacks[0] {
			cs.Fail("nack/roundtrip", core.W{"word": fmt.Sprintf("%08x", w), "decoded": vdump(d)})
			return false
		}
		sli.SLI[0] = rtcp.SLIEntry{First: uint16(w >> 19), Number: uint16(w >> 6 & 0x1FFF), Picture: uint8(w & 0x3F)}
		so, serr := sli.Marshal()
		if serr != nil || len(so) != 16 || so[12] != byte(w>>24) || so[13] != byte(w>>16) || so[14] != byte(w>>8) || so[15] != byte(w) {
			cs.Fail("sli/encode", core.W{"word": fmt.Sprintf("%08x", w), "octets": mon.Hex(so, 16), "error": errStr(serr)})
			return false
		}
		var sd rtcp.SliceLossIndication
		if sd.Unmarshal(so) != nil || len(sd.SLI) != 1 || sd.SLI[0] != sli.SLI[0] {
			cs.Fail("sli/roundtrip", core.W{"word": fmt.Sprintf("%08x", w), "decoded": vdump(sd)})
			return false
		}
		return true
	}
	if c.Thorough() {
		c.Exhaustive("NACK pair and SLI word: all 2^32 words through single-entry packets", 1<<33)
		c.Section("pair-words-all", 1<<16, func(cs *core.Case) {
			nack := &rtcp.TransportLayerNack{SenderSSRC: 1, MediaSSRC: 2, Nacks: make([]rtcp.NackPair, 1)}
			sli := &rtcp.SliceLossIndication{SenderSSRC: 1, MediaSSRC: 2, SLI: make([]rtcp.SLIEntry, 1)}
			hi := uint32(cs.Idx) << 16
			for lo := uint32(0); lo < 1<<16; lo++ {
				if !pairWord(cs, hi|lo, nack, sli) {
					return
				}
			}
			cs.Eval(4 << 16)
			cs.DistinctN(2 << 16)
		})
	} else {
		c.Section("pair-words-sample", 1<<10, func(cs *core.Case) {
			nack := &rtcp.TransportLayerNack{SenderSSRC: 1, MediaSSRC: 2, Nacks: make([]rtcp.NackPair, 1)}
			sli := &rtcp.SliceLossIndication{SenderSSRC: 1, MediaSSRC: 2, SLI: make([]rtcp.SLIEntry, 1)}
			// 2^22 words: 2^12 per block; low and high halves walk independently
			for i := uint32(0); i < 1<<12; i++ {
				w := uint32(cs.Idx)<<22 | i<<10 | uint32(cs.R.Intn(1<<10)) // distinct by construction: (block, i) fix the top 22 bits
				if !pairWord(cs, w, nack, sli) {
					return
				}
			}
			cs.Eval(4 << 12)
			cs.DistinctN(1 << 12)
		})
		c.Section("pair-words-walking", 1, func(cs *core.Case) {
			nack := &rtcp.TransportLayerNack{Nacks: make([]rtcp.NackPair, 1)}
			sli := &rtcp.SliceLossIndication{SLI: make([]rtcp.SLIEntry, 1)}
			for bit := 0; bit < 32; bit++ {
				for _, w := range []uint32{1 << uint(bit), ^(uint32(1) << uint(bit)), uint32(1)<<uint(bit) - 1} {
					if !pairWord(cs, w, nack, sli) {
						return
					}
				}
			}
			cs.Eval(4 * 96)
			cs.DistinctN(96)
		})
	}
	// magic words as field values: an SSRC that happens to spell "REMB", a NACK pair that looks like a
	// header word. Through the type's own decoder and through the datagram decoder, alone and in
	// lists of 1..3 entries, with sender / media SSRC 0, the word itself, or 1, and every FIR
	// sequence number.
	c.Section("magic-values", uint64(len(core.MagicWords)), func(cs *core.Case) {
		w := core.MagicWords[cs.Idx]
		rt := func(p rtcp.Packet, what string) bool {
			out, err, pan := gMarshal(p)
			if pan != "" || err != nil {
				cs.Fail("magic/marshal", core.W{"value": vdump(p), "error": errStr(err), "panic": pan})
				return false
			}
			k := gen.KindOf(p)
			own, oerr, opan := gUnmarshalOwn(k, cloneBytes(out))
			ps, uerr, upan := gUnmarshal(cloneBytes(out))
			cs.Eval(3)
			if opan != "" || upan != "" {
				cs.Fail("panic/Unmarshal", core.W{"value": vdump(p), "octets": mon.Hex(out, 64), "panic": opan + upan})
				return false
			}
			okOwn := oerr == nil && mon.SemEqual(own, p)
			okDg := uerr == nil && len(ps) == 1 && (mon.SemEqual(ps[0], p) || k == gen.SLI) // SLI: the datagram path is known finding KF1 (C02's business)
			return cs.Check(okOwn && okDg, "magic/"+what, func() core.W {
				return core.W{"value": vdump(p), "octets": mon.Hex(out, 64), "own_error": errStr(oerr), "own": vdump(own), "datagram_error": errStr(uerr), "datagram": vdump(ps)}
			})
		}
		for _, media := range []uint32{0, w, 1} {
			for _, sender := range []uint32{0, w, 1} {
				for n := 1; n <= 3; n++ {
					for seq := 0; seq < 256; seq++ {
						f := &rtcp.FullIntraRequest{SenderSSRC: sender, MediaSSRC: media}
						for i := 0; i < n; i++ {
							f.FIR = append(f.FIR, rtcp.FIREntry{SSRC: w, SequenceNumber: uint8(seq + i)})
						}
						if !rt(f, "FIR") {
							return
						}
					}
					nk := &rtcp.TransportLayerNack{SenderSSRC: sender, MediaSSRC: media}
					sl := &rtcp.SliceLossIndication{SenderSSRC: sender, MediaSSRC: media}
					for i := 0; i < n; i++ {
						nk.Nacks = append(nk.Nacks, rtcp.NackPair{PacketID: uint16(w >> 16), LostPackets: rtcp.PacketBitmap(w)})
						sl.SLI = append(sl.SLI, rtcp.SLIEntry{First: uint16(w >> 19), Number: uint16(w >> 6 & 0x1FFF), Picture: uint8(w & 0x3F)})
					}
					if !rt(nk, "NACK") || !rt(sl, "SLI") {
						return
					}
				}
				if !rt(&rtcp.PictureLossIndication{SenderSSRC: sender, MediaSSRC: media}, "PLI") || !rt(&rtcp.RapidResynchronizationRequest{SenderSSRC: sender, MediaSSRC: media}, "RRR") {
					return
				}
				rr := &rtcp.ReceiverReport{SSRC: sender, Reports: []rtcp.ReceptionReport{{SSRC: media, LastSequenceNumber: w, Jitter: w, LastSenderReport: w, Delay: w}}}
				if !rt(rr, "RR") || !rt(&rtcp.Goodbye{Sources: []uint32{sender, media, w}}, "BYE") || !rt(&rtcp.ReceiverEstimatedMaximumBitrate{SenderSSRC: sender, Bitrate: 1000, SSRCs: []uint32{media, w}}, "REMB") {
					return
				}
			}
		}
		cs.DistinctN(9 * (3*256 + 12))
	})
	c.Once("fir-walking", func(cs *core.Case) {
		p := &rtcp.FullIntraRequest{FIR: make([]rtcp.FIREntry, 1)}
		for bit := 0; bit < 32; bit++ {
			for _, ssrc := range []uint32{1 << uint(bit), ^(uint32(1) << uint(bit))} {
				for _, seq := range []uint8{0, 1, 0x7F, 0x80, 0xFF} {
					p.FIR[0] = rtcp.FIREntry{SSRC: ssrc, SequenceNumber: seq}
					out, err := p.Marshal()
					var d rtcp.FullIntraRequest
					if err != nil || d.Unmarshal(out) != nil || len(d.FIR) != 1 || d.FIR[0] != p.FIR[0] {
						cs.Fail("fir/roundtrip", core.W{"entry": vdump(p.FIR[0]), "octets": mon.Hex(out, 20)})
						return
					}
				}
			}
		}
		cs.Eval(640)
	})
	// ---- FIR entry ----
	firN := c.N(1<<8, 1<<16) // blocks of 2^16 entries
	c.Section("fir-entries", firN, func(cs *core.Case) {
		p := &rtcp.FullIntraRequest{SenderSSRC: 1, MediaSSRC: 2, FIR: make([]rtcp.FIREntry, 1)}
		for i := uint32(0); i < 1<<8; i++ {
			// stratified SSRC: block index in the top bits, i in the middle, PRNG low bits, plus bit walks
			ssrc := uint32(cs.Idx)<<16 | i<<8 | cs.R.U32()&0xFF // thorough: 2^16 blocks x 2^8: every value of the top 24 bits; distinct by construction
			if !cs.C.Thorough() {
				ssrc = uint32(cs.Idx)<<24 | i<<16 | cs.R.U32()&0xFFFF
			}
			for seq := 0; seq < 256; seq++ {
				p.FIR[0] = rtcp.FIREntry{SSRC: ssrc, SequenceNumber: uint8(seq)}
				out, err := p.Marshal()
				if err != nil || len(out) != 20 || out[12] != byte(ssrc>>24) || out[13] != byte(ssrc>>16) || out[14] != byte(ssrc>>8) || out[15] != byte(ssrc) ||
					out[16] != byte(seq) || out[17] != 0 || out[18] != 0 || out[19] != 0 {
					cs.Fail("fir/encode", core.W{"entry": vdump(p.FIR[0]), "octets": mon.Hex(out, 20), "error": errStr(err)})
					return
				}
				var d rtcp.FullIntraRequest
				if d.Unmarshal(out) != nil || len(d.FIR) != 1 || d.FIR[0] != p.FIR[0] {
					cs.Fail("fir/roundtrip", core.W{"entry": vdump(p.FIR[0]), "decoded": vdump(d)})
					return
				}
			}
		}
		cs.Eval(2 << 16)
		cs.DistinctN(1 << 16)
	})
}

// scribbleOwned does what a caller may do with a result it owns: overwrite its octets and write
// into its spare capacity (as an append does). Nothing a later call returns may depend on it.
func scribbleOwned(b []byte) {
	b = b[:cap(b)]
	for i := range b {
		b[i] = b[i]*167 + 13
	}
}
