package props

import (
	"bytes"
	"fmt"
	"runtime"
	"sync"

	"github.com/pion/rtcp"

	"verifharness/internal/core"
	"verifharness/internal/gen"
	"verifharness/internal/mon"
)

// Bursts after a poisoning call. A package that keeps scratch memory between calls (a sync.Pool,
// a cached buffer) usually gets it wrong on the unusual path: the call that fails half-way, the
// value too large for the pooled buffer. Each case therefore makes one such call — a Marshal that
// must fail after it has produced part of its output, or a Marshal of a value far larger than
// any pooled buffer would be, or a decode that fails late — and then, without anything in
// between, lets several goroutines marshal / decode small values of the same type again and
// again, each comparing its own results with what the same calls gave before the poisoning.

// bigOf builds a value of kind k whose encoding has well over 4 KiB (nil if the type cannot).
func bigOf(r *core.Rand, k gen.Kind) rtcp.Packet {
	switch k {
	case gen.TWCC:
		m := &gen.TWCCModel{Sender: r.U32(), Media: r.U32(), Base: r.U16(), RefTime: r.U32() & 0xFFFFFF, FbCount: r.U8()}
		for len(m.Status) < 6000 {
			m.Status = append(m.Status, uint8(1+r.Intn(2)))
		}
		for _, s := range m.Status {
			if s == 1 {
				m.Deltas = append(m.Deltas, int64(r.Intn(256)))
			} else {
				m.Deltas = append(m.Deltas, int64(r.Intn(60000)-30000))
			}
		}
		return m.Value(m.Chunks(r, gen.ChunkOpts{}))
	case gen.SDES:
		s := &rtcp.SourceDescription{}
		for i := 0; i < 31; i++ {
			c := rtcp.SourceDescriptionChunk{Source: r.U32()}
			for j := 0; j < 3; j++ {
				c.Items = append(c.Items, rtcp.SourceDescriptionItem{Type: rtcp.SDESType(1 + r.Intn(8)), Text: gen.TextN(r, 200)})
			}
			s.Chunks = append(s.Chunks, c)
		}
		return s
	case gen.APP:
		return &rtcp.ApplicationDefined{SubType: 1, SSRC: r.U32(), Name: "bigg", Data: r.Bytes(20000)}
	case gen.SR:
		return &rtcp.SenderReport{SSRC: r.U32(), Reports: make([]rtcp.ReceptionReport, 31), ProfileExtensions: r.Bytes(8000)}
	case gen.RR:
		return &rtcp.ReceiverReport{SSRC: r.U32(), Reports: make([]rtcp.ReceptionReport, 31), ProfileExtensions: r.Bytes(8000)}
	case gen.FIR:
		return &rtcp.FullIntraRequest{SenderSSRC: r.U32(), MediaSSRC: r.U32(), FIR: make([]rtcp.FIREntry, 2000)}
	case gen.CCFB:
		return &rtcp.CCFeedbackReport{SenderSSRC: r.U32(), ReportBlocks: []rtcp.CCFeedbackReportBlock{{MediaSSRC: r.U32(), BeginSequence: 7, MetricBlocks: make([]rtcp.CCFeedbackMetricBlock, 9000)}}}
	case gen.XR:
		return &rtcp.ExtendedReport{SenderSSRC: r.U32(), Reports: []rtcp.ReportBlock{&rtcp.LossRLEReportBlock{SSRC: r.U32(), Chunks: make([]rtcp.Chunk, 6000)}, &rtcp.UnknownReportBlock{XRHeader: rtcp.XRHeader{BlockType: 77}, Bytes: r.Bytes(8000)}}}
	case gen.NACK:
		return &rtcp.TransportLayerNack{SenderSSRC: r.U32(), MediaSSRC: r.U32(), Nacks: make([]rtcp.NackPair, 253)}
	case gen.REMB:
		return &rtcp.ReceiverEstimatedMaximumBitrate{SenderSSRC: r.U32(), Bitrate: 1e9, SSRCs: make([]uint32, 255)}
	case gen.Raw:
		rp := rtcp.RawPacket(append([]byte{0x80, 199, 0x07, 0xFF}, r.Bytes(8188)...))
		return &rp
	case gen.Compound:
		return &rtcp.CompoundPacket{&rtcp.ReceiverReport{SSRC: 1}, &rtcp.SourceDescription{Chunks: []rtcp.SourceDescriptionChunk{{Source: 1, Items: []rtcp.SourceDescriptionItem{{Type: rtcp.SDESCNAME, Text: "c"}}}}}, &rtcp.ApplicationDefined{Name: "bigg", Data: r.Bytes(12000)}}
	}
	return nil
}

// failingLate builds a value of kind k whose Marshal must fail, but only after a valid first
// part (nil if the type has no such value).
func failingLate(r *core.Rand, k gen.Kind) rtcp.Packet {
	switch k {
	case gen.SDES:
		s := &rtcp.SourceDescription{}
		for i := 0; i < 3+r.Intn(5); i++ {
			s.Chunks = append(s.Chunks, rtcp.SourceDescriptionChunk{Source: r.U32(), Items: []rtcp.SourceDescriptionItem{{Type: rtcp.SDESCNAME, Text: gen.TextN(r, 10+r.Intn(40))}}})
		}
		last := &s.Chunks[len(s.Chunks)-1]
		if r.Bool() {
			last.Items = append(last.Items, rtcp.SourceDescriptionItem{Type: rtcp.SDESNote, Text: gen.TextN(r, 256+r.Intn(100))})
		} else {
			last.Items = append(last.Items, rtcp.SourceDescriptionItem{Type: 0, Text: "end-type"})
		}
		return s
	case gen.TWCC:
		t, _ := gen.TWCCValue(r, gen.Opts{Small: true})
		for len(t.RecvDeltas) < 3 {
			return nil
		}
		t.RecvDeltas[len(t.RecvDeltas)-1] = &rtcp.RecvDelta{Type: 1, Delta: 300 * 250} // out of range for a small delta
		return t
	case gen.CCFB:
		return &rtcp.CCFeedbackReport{SenderSSRC: r.U32(), ReportBlocks: []rtcp.CCFeedbackReportBlock{
			{MediaSSRC: r.U32(), BeginSequence: 1, MetricBlocks: make([]rtcp.CCFeedbackMetricBlock, 10)},
			{MediaSSRC: r.U32(), BeginSequence: 1, MetricBlocks: make([]rtcp.CCFeedbackMetricBlock, 16385)}}}
	case gen.SR:
		v := &rtcp.SenderReport{SSRC: r.U32(), Reports: make([]rtcp.ReceptionReport, 5)}
		v.Reports[4].TotalLost = 1 << 24
		return v
	case gen.RR:
		v := &rtcp.ReceiverReport{SSRC: r.U32(), Reports: make([]rtcp.ReceptionReport, 5)}
		v.Reports[4].TotalLost = 1 << 24
		return v
	case gen.Compound:
		return &rtcp.CompoundPacket{&rtcp.ReceiverReport{SSRC: 1}, &rtcp.SourceDescription{Chunks: []rtcp.SourceDescriptionChunk{{Source: 1, Items: []rtcp.SourceDescriptionItem{{Type: rtcp.SDESCNAME, Text: "c"}}}}}, &rtcp.Goodbye{Sources: make([]uint32, 40)}}
	case gen.BYE:
		return &rtcp.Goodbye{Sources: []uint32{1, 2, 3}, Reason: gen.TextN(r, 300)}
	}
	return nil
}

func burstSection(c *core.Ctx, n uint64) {
	c.Section("burst-after-poison", n, func(cs *core.Case) {
		c.WatchdogOff(true)
		defer c.WatchdogOff(false)
		r := cs.R
		k := gen.Kind(cs.Idx % uint64(gen.NumKinds))
		mode := int(cs.Idx/uint64(gen.NumKinds)) % 3 // 0 big value, 1 Marshal failing late, 2 decode of a damaged big encoding
		const G = 8
		type obj struct {
			p    rtcp.Packet
			enc  []byte
			dump string
		}
		objs := make([]obj, G)
		for i := range objs {
			p := gen.Packet(r, k, gen.Opts{Small: true, NoBig: true})
			b, err, pan := gMarshal(p)
			if err != nil || pan != "" {
				return
			}
			d := gen.New(k)
			if derr := d.Unmarshal(cloneBytes(b)); derr != nil {
				objs[i] = obj{p, b, "error:" + derr.Error()}
			} else {
				objs[i] = obj{p, b, mon.Dump(d)}
			}
		}
		// the poisoning call
		what := ""
		switch mode {
		case 0:
			if v := bigOf(r, k); v != nil {
				b, err, pan := gMarshal(v)
				what = fmt.Sprintf("Marshal of a value of %d octets (error %v, panic %q)", len(b), err, pan)
			}
		case 1:
			if v := failingLate(r, k); v != nil {
				_, err, pan := gMarshal(v)
				if err == nil && pan == "" {
					return // not a failing value after all: nothing to learn here
				}
				what = "Marshal that fails late: " + errStr(err) + pan
			}
		default:
			if v := bigOf(r, k); v != nil {
				if b, err, pan := gMarshal(v); err == nil && pan == "" && len(b) > 64 {
					cut := cloneBytes(b[:len(b)-r.Pick(1, 2, 4, 8, 33)])
					gen.FitLength(cut)
					cut[2], cut[3] = b[2], b[3] // the length field still announces the whole packet
					_, derr, dpan := gUnmarshalOwn(k, cut)
					what = fmt.Sprintf("decode of a %d-octet encoding cut short (error %v, panic %q)", len(b), derr, dpan)
				}
			}
		}
		if what == "" {
			return
		}
		prev := runtime.GOMAXPROCS(8)
		defer runtime.GOMAXPROCS(prev)
		bad := make([]string, G)
		var wg sync.WaitGroup
		start := make(chan struct{})
		const rounds = 150
		for g := 0; g < G; g++ {
			wg.Add(1)
			go func(g int) {
				defer wg.Done()
				o := objs[g]
				<-start
				for i := 0; i < rounds && bad[g] == ""; i++ {
					panicked, v, _ := core.Guard(func() {
						b, err := o.p.Marshal()
						if err != nil || !bytes.Equal(b, o.enc) {
							bad[g] = fmt.Sprintf("round %d: Marshal gives %s (error %v), before the poisoning call it gave %s", i, mon.Hex(b, 120), err, mon.Hex(o.enc, 120))
							return
						}
						d := gen.New(k)
						dump := ""
						if derr := d.Unmarshal(cloneBytes(o.enc)); derr != nil {
							dump = "error:" + derr.Error()
						} else {
							dump = mon.Dump(d)
						}
						if dump != o.dump {
							bad[g] = fmt.Sprintf("round %d: Unmarshal gives %.300s, before the poisoning call it gave %.300s", i, dump, o.dump)
						}
					})
					if panicked {
						bad[g] = fmt.Sprintf("round %d: panic %v", i, v)
					}
				}
			}(g)
		}
		close(start)
		wg.Wait()
		cs.Eval(uint64(2 * G * rounds))
		cs.DistinctN(G)
		cs.Count("burst-after-poison/" + []string{"big-value", "failing-marshal", "failing-decode"}[mode])
		for g, b := range bad {
			if b != "" {
				cs.Fail("history/result-differs-after-unusual-call/"+k.String(), core.W{"type": k.String(), "poisoning_call": what, "goroutine": g, "difference": b})
				return
			}
		}
	})
}
