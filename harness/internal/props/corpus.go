package props

import (
	"github.com/pion/rtcp"

	"verifharness/internal/core"
	"verifharness/internal/gen"
	"verifharness/internal/ref"
)

// softMutate applies acceptance-preserving mutations to one well-framed frame: payload
// octets, reserved bits, surplus trailing words inside the frame, padding shapes, inner
// length fields — always leaving a frame whose header length matches its size.
func softMutate(r *core.Rand, b []byte) []byte {
	m := cloneBytes(b)
	if len(m) < 4 {
		return m
	}
	for n := r.Intn(4); n > 0; n-- {
		switch r.Intn(9) {
		case 0: // random payload octet
			if len(m) > 4 {
				m[4+r.Intn(len(m)-4)] = r.U8()
			}
		case 1: // random payload bit
			if len(m) > 4 {
				m[4+r.Intn(len(m)-4)] ^= 1 << uint(r.Intn(8))
			}
		case 2: // append surplus words inside the frame
			m = append(m, r.Bytes(4*(1+r.Intn(3)))...)
		case 3: // append zero words
			m = append(m, make([]byte, 4*(1+r.Intn(2)))...)
		case 4: // padding bit
			m[0] ^= 0x20
		case 5: // append a padding-shaped tail: k-1 octets then the count k
			k := 4 * (1 + r.Intn(2))
			t := r.Bytes(k)
			t[k-1] = byte(k)
			m = append(m, t...)
			m[0] |= 0x20
		case 6: // 16-bit field at an even payload offset → boundary value
			if len(m) >= 8 {
				o := 4 + 2*r.Intn((len(m)-4)/2)
				v := r.Pick(0, 1, 2, 3, 0xFFFF, 0x8000, 0x7FFF, 13, 14, 15)
				m[o], m[o+1] = byte(v>>8), byte(v)
			}
		case 7: // drop trailing words
			if len(m) > 8 {
				m = m[:len(m)-4*(1+r.Intn((len(m)-4)/4))]
			}
		default: // count / FMT nudged
			if r.Chance(1, 3) {
				m[0] = m[0]&0xE0 | byte(r.Intn(32))
			}
		}
	}
	gen.FitLength(m)
	return m
}

// corpusFrame returns one frame that rtcp.Unmarshal is likely to accept.
func corpusFrame(r *core.Rand) []byte {
	k := gen.Kind(r.Intn(int(gen.Compound)))
	v := gen.Packet(r, k, gen.Opts{Small: !r.Chance(1, 10), NoBig: !r.Chance(1, 200), AllowKF: r.Chance(1, 10)})
	var base []byte
	if r.Chance(1, 5) {
		if b, err, pan := gMarshal(v); err == nil && pan == "" && len(b)%4 == 0 && len(b) >= 4 {
			base = b
		}
	}
	if base == nil {
		d := ref.Lib
		if r.Chance(1, 6) {
			d = ref.RFC
		}
		e, err := ref.Encode(v, d)
		if err != nil {
			return nil
		}
		base = e.B
	}
	switch k {
	case gen.REMB:
		if r.Chance(1, 3) && len(base) >= 20 {
			// any wire mantissa/exponent, incl. the 64 mantissa-0 values
			base = cloneBytes(base)
			copy(base[17:20], r.Bytes(3))
			if r.Chance(1, 6) {
				base[17] &= 0xFC
				base[18], base[19] = 0, 0
			}
			return base
		}
	case gen.TWCC:
		if r.Chance(1, 2) {
			return twccMutate(r, base)
		}
	}
	if r.Chance(1, 3) {
		return base
	}
	return softMutate(r, base)
}

// corpusDatagram builds a datagram of 1..n frames.
func corpusDatagram(r *core.Rand) []byte {
	n := r.Pick(1, 1, 1, 2, 2, 3, 5, 8)
	var out []byte
	for i := 0; i < n; i++ {
		f := corpusFrame(r)
		if f == nil {
			continue
		}
		out = append(out, f...)
	}
	return out
}

// twccHeaderConsistent is the statement's precondition for TransportLayerCC in C09: the
// decoded header's length equals the content size in words and the padding flag is set only
// when padding octets exist.
func twccHeaderConsistent(t *rtcp.TransportLayerCC) bool {
	size := 20 + 2*len(t.PacketChunks)
	for _, d := range t.RecvDeltas {
		if d == nil {
			return false
		}
		if d.Type == 1 {
			size++
		} else {
			size += 2
		}
	}
	pad := (4 - size%4) % 4
	if t.Header.Padding && pad == 0 {
		return false
	}
	return int(t.Header.Length) == (size+pad)/4-1
}
