package props

import (
	"hash/adler32"
	"hash/crc32"
	"hash/fnv"
	"sync"

	"github.com/pion/rtcp"

	"verifharness/internal/core"
	"verifharness/internal/gen"
	"verifharness/internal/mon"
	"verifharness/internal/ref"
)

// Texts that collide under the hash functions a cache is likely to be keyed by. A cache of
// decoded texts that trusts hash and length (and does not compare the bytes) is invisible to
// any workload whose texts are merely random: two unrelated texts share a 32-bit hash with
// probability 2^-32. Colliding pairs of equal length are easy to make on purpose: for the CRCs
// by solving for a 4-octet suffix (CRC is linear), for FNV-1a and Adler-32 by a birthday search
// over a few hundred thousand candidates.

type collidingPair struct {
	hash string
	a, b string
}

var (
	collideOnce  sync.Once
	collidePairs []collidingPair
)

// crcSuffix returns 4 octets s such that crc32(prefix||s) == want for the given table (reflected
// CRC-32 family): run the register backwards from the wanted value.
func crcSuffix(tab *crc32.Table, prefix []byte, want uint32) []byte {
	// forward state after the prefix (before the final xor)
	state := ^crc32.Update(0, tab, prefix)
	// reverse table: index by the top byte of a table entry
	var rev [256]byte
	for i := 0; i < 256; i++ {
		rev[tab[i]>>24] = byte(i)
	}
	// target register (before the final xor) and walk back 4 steps to find the table indices
	reg := ^want
	var idx [4]byte
	for i := 3; i >= 0; i-- {
		idx[i] = rev[reg>>24]
		reg = (reg ^ tab[idx[i]]) << 8
	}
	// forward: choose octets so that the indices come out as wanted
	out := make([]byte, 4)
	for i := 0; i < 4; i++ {
		out[i] = byte(state) ^ idx[i]
		state = tab[idx[i]] ^ state>>8
	}
	return out
}

func collidingTexts() []collidingPair {
	collideOnce.Do(func() {
		r := core.NewRand(0xC0111DE)
		letters := func(n int) []byte {
			b := make([]byte, n)
			for i := range b {
				b[i] = byte('a' + r.Intn(26))
			}
			return b
		}
		// CRC-32 (IEEE) and CRC-32C: same length, same checksum, by construction
		for _, t := range []struct {
			name string
			tab  *crc32.Table
		}{{"crc32-ieee", crc32.IEEETable}, {"crc32-castagnoli", crc32.MakeTable(crc32.Castagnoli)}} {
			for n := 0; n < 12; n++ {
				l := []int{4, 5, 8, 12, 16, 20, 28, 40, 60, 100, 200, 251}[n]
				a := letters(l + 4)
				want := crc32.Checksum(a, t.tab)
				p := letters(l)
				b := append(p, crcSuffix(t.tab, p, want)...)
				if crc32.Checksum(b, t.tab) == want && string(a) != string(b) {
					collidePairs = append(collidePairs, collidingPair{t.name, string(a), string(b)})
				}
			}
		}
		// FNV-1a 32 and Adler-32: birthday search among texts of one length
		seenF := map[uint32]string{}
		seenA := map[uint32]string{}
		for i := 0; i < 400000; i++ {
			s := string(letters(12))
			h := fnv.New32a()
			h.Write([]byte(s))
			if o, ok := seenF[h.Sum32()]; ok && o != s {
				collidePairs = append(collidePairs, collidingPair{"fnv1a-32", o, s})
			}
			seenF[h.Sum32()] = s
			ad := adler32.Checksum([]byte(s))
			if o, ok := seenA[ad]; ok && o != s && len(seenA) < 3000 {
				collidePairs = append(collidePairs, collidingPair{"adler-32", o, s})
			}
			if len(seenA) < 3000 {
				seenA[ad] = s
			}
		}
	})
	return collidePairs
}

// collideSection decodes, one after the other, packets that differ only in a text, the two texts
// colliding under a common hash: each decode must give its own text.
func collideSection(c *core.Ctx) {
	pairs := collidingTexts()
	c.Note("colliding text pairs prepared: " + itoa(len(pairs)) + " (crc32-ieee, crc32-castagnoli, fnv1a-32, adler-32)")
	c.Section("colliding-texts", uint64(len(pairs)), func(cs *core.Case) {
		pr := pairs[cs.Idx]
		mk := func(text string, kind int) rtcp.Packet {
			switch kind {
			case 0:
				return &rtcp.SourceDescription{Chunks: []rtcp.SourceDescriptionChunk{{Source: 7, Items: []rtcp.SourceDescriptionItem{{Type: rtcp.SDESCNAME, Text: text}}}}}
			case 1:
				return &rtcp.SourceDescription{Chunks: []rtcp.SourceDescriptionChunk{{Source: 7, Items: []rtcp.SourceDescriptionItem{{Type: rtcp.SDESName, Text: "n"}, {Type: rtcp.SDESNote, Text: text}}}}}
			case 2:
				return &rtcp.Goodbye{Sources: []uint32{7}, Reason: text}
			default:
				return &rtcp.ApplicationDefined{SSRC: 7, Name: "coll", Data: append([]byte(text), make([]byte, (4-len(text)%4)%4)...)}
			}
		}
		for kind := 0; kind < 4; kind++ {
			for _, order := range [][2]string{{pr.a, pr.b}, {pr.b, pr.a}, {pr.a, pr.b}} {
				for _, text := range order {
					v := mk(text, kind)
					e, err := ref.Encode(v, ref.RFC)
					if err != nil {
						continue
					}
					ps, uerr, pan := gUnmarshal(cloneBytes(e.B))
					own, oerr, opan := gUnmarshalOwn(gen.KindOf(v), cloneBytes(e.B))
					cs.Eval(2)
					if pan != "" || opan != "" {
						cs.Fail("panic/Unmarshal", core.W{"input_hex": mon.Hex(e.B, 200), "panic": pan + opan})
						return
					}
					ok := uerr == nil && len(ps) == 1 && mon.SemEqual(ps[0], v) && oerr == nil && mon.SemEqual(own, v)
					if !cs.Check(ok, "history/decode-depends-on-earlier-text/"+pr.hash, func() core.W {
						return core.W{"hash_under_which_the_texts_collide": pr.hash, "text_a": pr.a, "text_b": pr.b, "this_packet_carries": text, "decoded": vdump(ps), "own_decoder": vdump(own), "expected": vdump(v)}
					}) {
						return
					}
				}
			}
		}
		cs.DistinctN(1)
		cs.Count("colliding-texts/" + pr.hash)
	})
}
