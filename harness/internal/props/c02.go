package props

import (
	"bytes"
	"fmt"
	"math"

	"github.com/pion/rtcp"

	"verifharness/internal/core"
	"verifharness/internal/gen"
	"verifharness/internal/mon"
	"verifharness/internal/ref"
)

func init() {
	core.Register(&core.PropDef{
		ID:        "C02",
		Run:       runC02,
		Technique: "runtime round-trip monitor: Marshal -> own decoder / datagram decoder / list decoder -> structural comparison modulo the three documented quantisations (computed by the reference model)",
		Rule: "values of all 16 packet types from the seeded boundary-biased generator over the well-formed domain D (DESIGN.md section 3) lists of 1..12 mixed packets, values whose encoding has 64 KiB or more (8 shapes), and decoded lists re-marshalled in a rearranged order with fresh packets in between (result = concatenation of the own encodings; source datagram and packets unchanged); " +
			"non-trivial = Marshal succeeded and the own decoder was run on at least 8 octets; distinct by digest of (type, marshalled octets)",
		Assumptions: []string{
			"D (DESIGN.md section 3) is my reading of 'well-formed'; SenderReport extensions are multiples of 4 octets, TWCC/CCFB encodings stay below 65536 octets",
			"the expected quantisations (REMB 18-bit mantissa, RR extension zero padding) are computed by the independent reference, not by the library",
			"for ExtendedReport the comparison uses the value after Marshal (it documents filling the block headers)",
		},
		MinDistinctQuick: 20000, MinDistinctThorough: 500000,
	})
}

// quantise returns the value a round trip is allowed to return for v: identical except the
// documented quantisations.
func quantise(p rtcp.Packet) rtcp.Packet {
	q := clonePacket(p)
	quantiseInPlace(q)
	return q
}

func quantiseInPlace(q rtcp.Packet) {
	switch v := q.(type) {
	case *rtcp.ReceiverReport:
		for len(v.ProfileExtensions)%4 != 0 {
			v.ProfileExtensions = append(v.ProfileExtensions, 0)
		}
	case *rtcp.TransportLayerCC:
		for _, d := range v.RecvDeltas {
			if d != nil && d.Delta >= 0 {
				d.Delta -= d.Delta % 250
			}
		}
	case *rtcp.ReceiverEstimatedMaximumBitrate:
		if e, m, ok := ref.REMBEncode(v.Bitrate); ok {
			v.Bitrate = math.Float32frombits(ref.REMBDecodeBits(e, m))
		}
	case *rtcp.CompoundPacket:
		for _, m := range *v {
			quantiseInPlace(m)
		}
	}
}

// kfOf lists the open-finding classes a value (or any member of a compound) falls into.
func kfOf(p rtcp.Packet, datagram bool) []string {
	var out []string
	if gen.Contains(p, gen.IsKF2) {
		out = append(out, "KF2")
	}
	if gen.Contains(p, gen.IsKF3) {
		out = append(out, "KF3")
	}
	if gen.Contains(p, gen.IsKF5) {
		out = append(out, "KF5")
	}
	if datagram && gen.Contains(p, gen.IsSLI) {
		out = append(out, "KF1")
	}
	return out
}

// kf1Symptom returns the list in which every SliceLossIndication is replaced by exactly what
// known finding KF1 predicts: a RawPacket holding the SLI's own (PT 205) encoding. A list that
// differs from the expectation in any other way is not attributed to KF1.
func kf1Symptom(want []rtcp.Packet) ([]rtcp.Packet, bool) {
	out := make([]rtcp.Packet, len(want))
	any := false
	for i, p := range want {
		if sli, ok := p.(*rtcp.SliceLossIndication); ok {
			e, err := ref.Encode(sli, ref.Lib)
			if err != nil {
				return nil, false
			}
			rp := rtcp.RawPacket(e.B)
			out[i] = &rp
			any = true
		} else {
			out[i] = p
		}
	}
	return out, any
}

// kf3SymptomList returns the expected list as known finding KF3 predicts it: every REMB whose
// quantised bitrate is 0 (wire mantissa 0, exponent 0) comes back as 2^23. ok is false when the
// list has no such REMB.
func kf3SymptomList(want []rtcp.Packet) ([]rtcp.Packet, bool) {
	out := make([]rtcp.Packet, len(want))
	any := false
	var fix func(p rtcp.Packet)
	fix = func(p rtcp.Packet) {
		switch v := p.(type) {
		case *rtcp.ReceiverEstimatedMaximumBitrate:
			if v.Bitrate == 0 {
				v.Bitrate = 8388608
				any = true
			}
		case *rtcp.CompoundPacket:
			for _, m := range *v {
				fix(m)
			}
		}
	}
	for i, p := range want {
		out[i] = clonePacket(p)
		fix(out[i])
	}
	return out, any
}

// cmpKF3 compares decoded packets with the expectation: 0 equal, 1 equal to exactly what known
// finding KF3 predicts, 2 different from both.
func cmpKF3(got, want []rtcp.Packet) int {
	if mon.SemEqual(normList(got), normList(want)) {
		return 0
	}
	if sym, any := kf3SymptomList(want); any && mon.SemEqual(normList(got), normList(sym)) {
		return 1
	}
	return 2
}

// without drops one finding class from a list.
func without(kfs []string, id string) []string {
	var out []string
	for _, k := range kfs {
		if k != id {
			out = append(out, k)
		}
	}
	return out
}

// withoutKF1 drops KF1 from a finding list.
func withoutKF1(kfs []string) []string {
	var out []string
	for _, k := range kfs {
		if k != "KF1" {
			out = append(out, k)
		}
	}
	return out
}

// normList applies normXR to every element: values are compared modulo the XRHeader
// convenience field of known XR block kinds (whether or not Marshal fills it in).
func normList(ps []rtcp.Packet) []rtcp.Packet {
	out := make([]rtcp.Packet, len(ps))
	for i, p := range ps {
		out[i] = normXR(p)
	}
	return out
}

func c02Value(cs *core.Case, p rtcp.Packet) {
	k := gen.KindOf(p)
	b, err, pan := gMarshal(p)
	cs.Eval(1)
	det := func(extra core.W) func() core.W {
		return func() core.W {
			d := core.W{"type": k.String(), "value": vdump(p), "marshal_hex": mon.Hex(b, 160)}
			for kk, vv := range extra {
				d[kk] = vv
			}
			return d
		}
	}
	if pan != "" {
		cs.Fail("panic/Marshal", core.W{"value": vdump(p), "panic": pan})
		return
	}
	kfs := kfOf(p, k == gen.Compound)
	if err != nil {
		cs.Fail("marshal-error/"+k.String(), det(core.W{"error": errStr(err)})(), kfs...)
		return
	}
	want := quantise(p) // after Marshal: XR block headers are filled in
	if len(b) >= 8 {
		cs.Distinct(core.Digest([]byte(k.String()), b))
	}
	cs.Count("value/" + k.String())
	cs.Sample("value/"+k.String(), func() any { return map[string]any{"value": vdump(p), "marshal_hex": mon.Hex(b, 64)} })

	// own decoder
	in := cloneBytes(b)
	got, derr, dpan := gUnmarshalOwn(k, in)
	cs.Eval(1)
	if dpan != "" {
		cs.Fail("panic/Unmarshal", det(core.W{"panic": dpan})())
		return
	}
	if derr != nil {
		cs.Fail("own-decoder/error/"+k.String(), det(core.W{"error": errStr(derr)})(), kfs...)
	} else if c3 := cmpKF3([]rtcp.Packet{got}, []rtcp.Packet{want}); c3 == 1 {
		cs.Fail("own-decoder/value/"+k.String(), det(core.W{"decoded": vdump(got)})(), "KF3")
	} else if c3 == 2 {
		attributed := false
		if wc, ok := want.(*rtcp.CompoundPacket); ok {
			if sym, any := kf1Symptom([]rtcp.Packet(*wc)); any {
				if gc, ok2 := got.(*rtcp.CompoundPacket); ok2 && len(*gc) == len(sym) {
					kindsOK := true
					for i := range sym {
						kindsOK = kindsOK && gen.KindOf((*gc)[i]) == gen.KindOf(sym[i])
					}
					if kindsOK {
						cs.Fail("own-decoder/value/"+k.String(), det(core.W{"decoded": vdump(got)})(), "KF1")
						attributed = true
						switch cmpKF3([]rtcp.Packet(*gc), sym) {
						case 1:
							cs.Fail("own-decoder/value/"+k.String(), det(core.W{"decoded": vdump(got)})(), "KF3")
						case 2:
							cs.Fail("own-decoder/value/"+k.String(), det(core.W{"decoded": vdump(got), "expected": vdump(sym)})(), without(withoutKF1(kfs), "KF3")...)
						}
					}
				}
			}
		}
		if !attributed {
			cs.Fail("own-decoder/value/"+k.String(), det(core.W{"decoded": vdump(got), "expected": vdump(want)})(), without(withoutKF1(kfs), "KF3")...)
		}
	}

	// every element of a decoded list is an object of its own: if two positions were one object,
	// editing one element of the result would edit another, and the result would no longer be the
	// value that was encoded
	if derr == nil && got != nil {
		if what, shared := mon.SharedElems(got); shared {
			cs.Fail("own-decoder/positions-share-an-object/"+k.String(), det(core.W{"what": what})())
		}
	}
	// the texts of a decoded packet are Go strings: overwriting the buffer the packet was decoded
	// from (as a receive loop does with the next datagram) may not change them
	if derr == nil && got != nil {
		before := mon.Strings(got)
		if len(before) > 0 {
			for i := range in {
				in[i] = in[i]*167 + 13
			}
			after := mon.Strings(got)
			same := len(before) == len(after)
			for i := 0; same && i < len(before); i++ {
				same = before[i] == after[i]
			}
			cs.Eval(1)
			cs.Count("strings-after-input-overwritten/" + k.String())
			if !same {
				cs.Fail("own-decoder/text-changed-when-input-buffer-was-overwritten/"+k.String(), det(core.W{"texts_before": before, "texts_after": after})())
			}
		}
	}

	// datagram decoder
	dkfs := kfOf(p, true)
	ps, uerr, upan := gUnmarshal(cloneBytes(b))
	cs.Eval(1)
	if upan != "" {
		cs.Fail("panic/rtcp.Unmarshal", det(core.W{"panic": upan})())
		return
	}
	var wantList []rtcp.Packet
	if c, ok := want.(*rtcp.CompoundPacket); ok {
		wantList = []rtcp.Packet(*c)
	} else {
		wantList = []rtcp.Packet{want}
	}
	if uerr != nil {
		cs.Fail("datagram/error/"+k.String(), det(core.W{"error": errStr(uerr)})(), dkfs...)
		return
	}
	typesOK := len(ps) == len(wantList)
	if typesOK {
		for i := range ps {
			if gen.KindOf(ps[i]) != gen.KindOf(wantList[i]) {
				typesOK = false
			}
		}
	}
	if !typesOK {
		// KF1 is attributed only when the result is exactly its symptom (every SLI came back as a
		// RawPacket with the SLI's own octets, everything else as expected)
		sameKinds := func(a, b []rtcp.Packet) bool {
			if len(a) != len(b) {
				return false
			}
			for i := range a {
				if gen.KindOf(a[i]) != gen.KindOf(b[i]) {
					return false
				}
			}
			return true
		}
		if sym, any := kf1Symptom(wantList); any && sameKinds(ps, sym) {
			cs.Fail("datagram/type/"+k.String(), det(core.W{"decoded": vdump(ps)})(), "KF1")
			wantList = sym
		} else {
			cs.Fail("datagram/type/"+k.String(), det(core.W{"decoded": vdump(ps)})(), withoutKF1(dkfs)...)
			return
		}
	}
	dkfs = withoutKF1(dkfs)
	switch cmpKF3(ps, wantList) {
	case 1:
		cs.Fail("datagram/value/"+k.String(), det(core.W{"decoded": vdump(ps)})(), "KF3")
		return
	case 2:
		cs.Fail("datagram/value/"+k.String(), det(core.W{"decoded": vdump(ps), "expected": vdump(wantList)})(), without(dkfs, "KF3")...)
		return
	}
	// re-marshalling the decoded packets reproduces the same octets
	b2, err2, pan2 := gMarshalList(ps)
	cs.Eval(1)
	if pan2 != "" {
		cs.Fail("panic/re-Marshal", det(core.W{"panic": pan2})())
		return
	}
	if err2 != nil || !bytes.Equal(b2, b) {
		cs.Fail("rebytes/"+k.String(), det(core.W{"error": errStr(err2), "rebytes_hex": mon.Hex(b2, 160)})(), dkfs...)
	}
}

func c02List(cs *core.Case, list []rtcp.Packet) {
	var kfs []string
	seen := map[string]bool{}
	for _, p := range list {
		for _, id := range kfOf(p, true) {
			if !seen[id] {
				seen[id] = true
				kfs = append(kfs, id)
			}
		}
	}
	b, err, pan := gMarshalList(list)
	cs.Eval(1)
	det := func(extra core.W) core.W {
		d := core.W{"list": vdump(list), "marshal_hex": mon.Hex(b, 200)}
		for kk, vv := range extra {
			d[kk] = vv
		}
		return d
	}
	if pan != "" {
		cs.Fail("panic/rtcp.Marshal", det(core.W{"panic": pan}))
		return
	}
	if err != nil {
		cs.Fail("list/marshal-error", det(core.W{"error": errStr(err)}), kfs...)
		return
	}
	var want []rtcp.Packet
	for _, p := range list {
		q := quantise(p)
		if c, ok := q.(*rtcp.CompoundPacket); ok {
			want = append(want, []rtcp.Packet(*c)...)
		} else {
			want = append(want, q)
		}
	}
	cs.Distinct(core.Digest([]byte("list"), b))
	cs.Count("list")
	cs.Sample("list", func() any { return map[string]any{"list": vdump(list), "marshal_hex": mon.Hex(b, 96)} })
	ps, uerr, upan := gUnmarshal(cloneBytes(b))
	cs.Eval(1)
	if upan != "" {
		cs.Fail("panic/rtcp.Unmarshal", det(core.W{"panic": upan}))
		return
	}
	if uerr != nil {
		cs.Fail("list/error", det(core.W{"error": errStr(uerr)}), kfs...)
		return
	}
	if c3 := cmpKF3(ps, want); c3 == 1 {
		cs.Fail("list/value", det(core.W{"decoded": vdump(ps)}), "KF3")
		return
	} else if c3 == 2 {
		sym, any := kf1Symptom(want)
		kindsOK := any && len(ps) == len(sym)
		for i := 0; kindsOK && i < len(sym); i++ {
			kindsOK = gen.KindOf(ps[i]) == gen.KindOf(sym[i])
		}
		if kindsOK {
			cs.Fail("list/value", det(core.W{"decoded": vdump(ps)}), "KF1")
			switch cmpKF3(ps, sym) {
			case 1:
				cs.Fail("list/value", det(core.W{"decoded": vdump(ps)}), "KF3")
				return
			case 2:
				cs.Fail("list/value", det(core.W{"decoded": vdump(ps), "expected": vdump(sym)}), without(withoutKF1(kfs), "KF3")...)
				return
			}
		} else {
			cs.Fail("list/value", det(core.W{"decoded": vdump(ps), "expected": vdump(want)}), without(withoutKF1(kfs), "KF3")...)
			return
		}
	}
	kfs = withoutKF1(kfs)
	b2, err2, pan2 := gMarshalList(ps)
	cs.Eval(1)
	if pan2 != "" {
		cs.Fail("panic/re-Marshal", det(core.W{"panic": pan2}))
		return
	}
	if err2 != nil || !bytes.Equal(b2, b) {
		cs.Fail("list/rebytes", det(core.W{"error": errStr(err2), "rebytes_hex": mon.Hex(b2, 200)}), kfs...)
		return
	}
	c02Rearranged(cs, ps, kfs)
}

// c02Rearranged marshals the decoded packets (which may alias the datagram they were decoded
// from) in a different order with fresh packets in between: the result must be the
// concatenation of the packets' own encodings, and neither the decoded packets nor the
// datagram they alias may change.
func c02Rearranged(cs *core.Case, decoded []rtcp.Packet, kfs []string) {
	r := cs.R
	// decode from a datagram that lives in a larger caller-owned array
	var each [][]byte
	var flat []byte
	for _, p := range decoded {
		b, err, pan := gMarshal(p)
		if err != nil || pan != "" {
			return
		}
		each = append(each, cloneBytes(b))
		flat = append(flat, b...)
	}
	backing := append(append(make([]byte, 0, len(flat)+32), flat...), r.Bytes(32)...)
	dgram := backing[:len(flat):len(backing)]
	ps, err, pan := gUnmarshal(dgram)
	if err != nil || pan != "" || len(ps) != len(decoded) {
		return
	}
	snapBacking := cloneBytes(backing)
	snapPs := make([]rtcp.Packet, len(ps))
	for i, p := range ps {
		snapPs[i] = clonePacket(p)
	}
	// a rearrangement: rotate / swap, with fresh packets inserted
	order := make([]int, len(ps))
	for i := range order {
		order[i] = i
	}
	for i := len(order) - 1; i > 0; i-- {
		if r.Bool() {
			j := r.Intn(i + 1)
			order[i], order[j] = order[j], order[i]
		}
	}
	var list []rtcp.Packet
	var want []byte
	pli := &rtcp.PictureLossIndication{SenderSSRC: r.U32(), MediaSSRC: r.U32()}
	pliB, _, _ := gMarshal(pli)
	for n, i := range order {
		list = append(list, ps[i])
		want = append(want, each[i]...)
		if n == 0 || r.Chance(1, 3) {
			list = append(list, pli)
			want = append(want, pliB...)
		}
	}
	got, merr, mpan := gMarshalList(list)
	cs.Eval(1)
	cs.Count("list-rearranged")
	det := func(extra core.W) core.W {
		d := core.W{"decoded_from_hex": mon.Hex(flat, 300), "order": order, "list": vdump(list)}
		for k, v := range extra {
			d[k] = v
		}
		return d
	}
	if mpan != "" {
		cs.Fail("panic/rtcp.Marshal", det(core.W{"panic": mpan}))
		return
	}
	if merr != nil || !bytes.Equal(got, want) {
		cs.Fail("list/rearranged-bytes", det(core.W{"error": errStr(merr), "got_hex": mon.Hex(got, 300), "expected_hex": mon.Hex(want, 300)}), kfs...)
		return
	}
	if !bytes.Equal(backing, snapBacking) {
		cs.Fail("list/marshal-modified-source-datagram", det(core.W{"before_hex": mon.Hex(snapBacking, 300), "after_hex": mon.Hex(backing, 300)}), kfs...)
		return
	}
	for i := range ps {
		if !mon.SemEqual(normXR(ps[i]), normXR(snapPs[i])) {
			cs.Fail("list/marshal-modified-packet", det(core.W{"index": i, "before": vdump(snapPs[i]), "after": vdump(ps[i])}), kfs...)
			return
		}
	}
}

// valueOf is the shared value stream of C02 / C03 / C10: kind by index, value by the case PRNG.
func valueOf(cs *core.Case, o gen.Opts) rtcp.Packet {
	k := gen.Kind(cs.Idx % uint64(gen.NumKinds))
	p := gen.Packet(cs.R, k, o)
	if cs.Idx/uint64(gen.NumKinds)%4 == 3 && k != gen.Raw {
		p = correlate(cs.R, p) // a quarter of the values: two numeric fields tied to each other
	}
	if cs.Idx/uint64(gen.NumKinds)%8 == 5 && k != gen.Raw && k != gen.TWCC {
		// an eighth of the values: the value has been used (marshalled, sized, printed, asked for its
		// SSRCs) and is then edited in place: anything remembered about its old shape is stale
		core.Guard(func() {
			_, _ = p.Marshal()
			_ = p.MarshalSize()
			_ = p.DestinationSSRC()
			if st, ok := p.(fmt.Stringer); ok && p.MarshalSize() <= 4096 { // the formatters are quadratic in the list lengths
				_ = st.String()
			}
		})
		if gen.EditLists(cs.R, p) {
			cs.Count("used-then-edited/" + k.String())
		}
	}
	return p
}

func runC02(c *core.Ctx) {
	o := gen.Opts{AllowKF: true}
	c.Section("values", c.N(1200000, 48000000), func(cs *core.Case) {
		c02Value(cs, valueOf(cs, o))
	})
	// values whose encoding has 64 KiB or more (where 16-bit byte arithmetic wraps)
	c.Section("big-values", c.N(400, 8000), func(cs *core.Case) {
		c02Value(cs, gen.BigPacket(cs.R))
	})
	c.Section("lists", c.N(100000, 4000000), func(cs *core.Case) {
		c02List(cs, gen.List(cs.R, 12, o))
	})
	// lists longer than the library's own cap of 253 NACK pairs / SLI entries (outside D: the
	// unchanged library refuses to marshal them, and then nothing is judged). A library that does
	// marshal such a list has to do it right: the octets are the RFC encoding, the length field
	// can represent the size, and both decoders give the value back.
	capSizes := []int{254, 255, 256, 257, 1000, 8190, 16380, 16381, 16382, 16383, 16384, 20000}
	c.Section("beyond-library-caps", uint64(2*len(capSizes))*c.N(1, 6), func(cs *core.Case) {
		r := cs.R
		n := capSizes[int(cs.Idx/2)%len(capSizes)]
		sender, media := r.U32(), r.U32()
		var p rtcp.Packet
		want := []byte{0x81, 205, 0, 0, byte(sender >> 24), byte(sender >> 16), byte(sender >> 8), byte(sender), byte(media >> 24), byte(media >> 16), byte(media >> 8), byte(media)}
		if cs.Idx%2 == 0 {
			v := &rtcp.TransportLayerNack{SenderSSRC: sender, MediaSSRC: media}
			for i := 0; i < n; i++ {
				np := rtcp.NackPair{PacketID: r.U16(), LostPackets: rtcp.PacketBitmap(r.U16())}
				v.Nacks = append(v.Nacks, np)
				want = append(want, byte(np.PacketID>>8), byte(np.PacketID), byte(np.LostPackets>>8), byte(np.LostPackets))
			}
			p = v
		} else {
			v := &rtcp.SliceLossIndication{SenderSSRC: sender, MediaSSRC: media}
			want[0] = 0x82
			if !ref.LibSLI205 {
				want[1] = 206
			}
			for i := 0; i < n; i++ {
				e := rtcp.SLIEntry{First: r.U16() & 0x1FFF, Number: r.U16() & 0x1FFF, Picture: r.U8() & 0x3F}
				v.SLI = append(v.SLI, e)
				w := uint32(e.First)<<19 | uint32(e.Number)<<6 | uint32(e.Picture)
				want = append(want, byte(w>>24), byte(w>>16), byte(w>>8), byte(w))
			}
			p = v
		}
		k := gen.KindOf(p)
		b, err, pan := gMarshal(p)
		cs.Eval(1)
		cs.DistinctN(1)
		det := func(extra core.W) core.W {
			d := core.W{"type": k.String(), "entries": n, "marshal_len": len(b), "marshal_head_hex": mon.Hex(b, 32)}
			for kk, vv := range extra {
				d[kk] = vv
			}
			return d
		}
		if pan != "" {
			cs.Fail("panic/Marshal", det(core.W{"panic": pan}))
			return
		}
		if err != nil {
			cs.Count("beyond-library-caps/refused")
			return
		}
		cs.Count("beyond-library-caps/accepted")
		words := len(want)/4 - 1
		if words > 0xFFFF {
			cs.Fail("beyond-caps/accepted-unrepresentable/"+k.String(), det(core.W{"note": "the size does not fit the 16-bit length field"}))
			return
		}
		want[2], want[3] = byte(words>>8), byte(words)
		if !bytes.Equal(b, want) {
			cs.Fail("beyond-caps/octets/"+k.String(), det(core.W{"reference_head_hex": mon.Hex(want, 32), "reference_len": len(want)}))
			return
		}
		own, oerr, opan := gUnmarshalOwn(k, cloneBytes(b))
		ps, uerr, upan := gUnmarshal(cloneBytes(b))
		cs.Eval(2)
		if opan != "" || upan != "" {
			cs.Fail("panic/Unmarshal", det(core.W{"panic": opan + upan}))
			return
		}
		okDg := uerr == nil && len(ps) == 1 && (mon.SemEqual(ps[0], p) || k == gen.SLI) // the datagram path of SLI is known finding KF1
		cs.Check(oerr == nil && mon.SemEqual(own, p) && okDg, "beyond-caps/round-trip/"+k.String(), func() core.W {
			return det(core.W{"own_error": errStr(oerr), "datagram_error": errStr(uerr)})
		})
	})
	// fixed regression witnesses of repaired defects
	c.Once("regression", func(cs *core.Case) {
		for n := 0; n <= 9; n++ {
			c02Value(cs, &rtcp.ReceiverReport{SSRC: 1, Reports: []rtcp.ReceptionReport{{SSRC: 2}}, ProfileExtensions: bytes.Repeat([]byte{0xAB}, n)})
		}
		// TWCC whose last status chunk ends exactly at the packet end (no deltas)
		m := &gen.TWCCModel{Sender: 1, Media: 2, Base: 3, RefTime: 4, FbCount: 5, Status: []uint8{0, 0, 0, 0, 0, 0, 0}}
		c02Value(cs, m.Value([]rtcp.PacketStatusChunk{&rtcp.RunLengthChunk{RunLength: 3}, &rtcp.RunLengthChunk{RunLength: 4}}))
	})
	c.KnownWitness("KF1", func() (bool, string) {
		b, _ := (&rtcp.SliceLossIndication{SLI: []rtcp.SLIEntry{{First: 1, Number: 2, Picture: 3}}}).Marshal()
		ps, err := rtcp.Unmarshal(b)
		if err != nil || len(ps) != 1 {
			return true, "own SLI output not decodable as a datagram: " + errStr(err)
		}
		_, isSLI := ps[0].(*rtcp.SliceLossIndication)
		return !isSLI, "rtcp.Unmarshal(SliceLossIndication.Marshal()) returns " + mon.TypeName(ps[0])
	})
	c.KnownWitness("KF2", func() (bool, string) {
		v := &rtcp.CCFeedbackReport{ReportBlocks: []rtcp.CCFeedbackReportBlock{{MediaSSRC: 1, BeginSequence: 10, MetricBlocks: []rtcp.CCFeedbackMetricBlock{{Received: true, ArrivalTimeOffset: 5}}}}}
		b, _ := v.Marshal()
		var d rtcp.CCFeedbackReport
		err := d.Unmarshal(b)
		return err != nil || !mon.SemEqual(&d, v), "CCFB block with exactly 1 metric block does not round-trip (err=" + errStr(err) + ", decoded " + vdump(d.ReportBlocks) + ")"
	})
	c.KnownWitness("KF3", func() (bool, string) {
		b, _ := (&rtcp.ReceiverEstimatedMaximumBitrate{Bitrate: 0}).Marshal()
		var d rtcp.ReceiverEstimatedMaximumBitrate
		_ = d.Unmarshal(b)
		return d.Bitrate != 0, "REMB bitrate 0 decodes as " + vdump(d.Bitrate)
	})
	c.KnownWitness("KF5", func() (bool, string) {
		x := &rtcp.ExtendedReport{Reports: []rtcp.ReportBlock{&rtcp.LossRLEReportBlock{Chunks: []rtcp.Chunk{1}}}}
		b, _ := x.Marshal()
		var d rtcp.ExtendedReport
		err := d.Unmarshal(b)
		return err != nil || !mon.SemEqual(&d, x), "XR with odd-chunk-count RLE block does not round-trip (err=" + errStr(err) + ")"
	})
}
