package props

import (
	"reflect"
	"bytes"
	"fmt"
	"strings"

	"github.com/pion/rtcp"

	"verifharness/internal/core"
	"verifharness/internal/gen"
	"verifharness/internal/mon"
	"verifharness/internal/ref"
)

func init() {
	core.Register(&core.PropDef{
		ID:         "C07",
		Run:        runC07,
		RunRace:    func(c *core.Ctx) { coldSection(c, c.N(66, 990), []string{"datagram", "compound", "own-decoder"}) },
		RaceShards: 4,
		RaceProcs:  4,
		Technique:  "runtime dispatch-table oracle over all 256x32x2 header combinations, foreign-type rejection matrix over all ordered type pairs, self-dispatch of Marshal output",
		Rule: "dispatch: all 256 packet types x 32 count/FMT values x P in {0,1}, registered combinations with reference-valid bodies consistent with the count, all others with 8 body shapes (0..6 words, zero / ones / random) expected back as RawPacket verbatim; " +
			"foreign: every ordered pair (T,U), T one of the 14 registered decoders, U one of 17 classes (13 other registered types, the library-dialect SLI, REMB packets whose octets are also a complete transport-cc body, raw frames with unregistered FMT under 205/206, raw frames with unregistered PT) x generated well-formed U encodings; " +
			"accepted-type: every single-bit flip beyond the header's first two octets and every aligned word replaced by capitals / magic words in valid frames of 16 registered combinations: an accepted single frame must have the registered type; " +
			"cold start: child processes whose first decodes are made by 2..32 goroutines at once, compared with a sequential child, with and without the race detector; " +
			"non-trivial = a frame of at least 4 octets was dispatched or handed to a foreign decoder; distinct by digest of (aspect, decoder, octets)",
		Assumptions: []string{
			"for registered combinations with the padding bit set only the dynamic type of an accepted result is judged (generic padding support is not claimed by any property)",
			"U encodings come from the independent reference encoder (RFC dialect; additionally the library's SLI dialect)",
		},
		MinDistinctQuick: 50000, MinDistinctThorough: 1000000,
	})
}

// registeredBody draws a reference-valid encoding of the registered combination (pt,count).
func registeredBody(r *core.Rand, pt, count uint8) ([]byte, gen.Kind) {
	k := gen.RegisteredKind(pt, count)
	for tries := 0; tries < 200; tries++ {
		v := gen.Packet(r, k, gen.Opts{Small: tries < 100, NoBig: true})
		// force the element count / subtype to the requested count
		switch x := v.(type) {
		case *rtcp.SenderReport:
			x.Reports = make([]rtcp.ReceptionReport, count)
			for i := range x.Reports {
				x.Reports[i] = gen.Report(r)
			}
		case *rtcp.ReceiverReport:
			x.Reports = make([]rtcp.ReceptionReport, count)
			for i := range x.Reports {
				x.Reports[i] = gen.Report(r)
			}
		case *rtcp.SourceDescription:
			x.Chunks = nil
			for i := 0; i < int(count); i++ {
				x.Chunks = append(x.Chunks, rtcp.SourceDescriptionChunk{Source: r.U32(), Items: []rtcp.SourceDescriptionItem{{Type: rtcp.SDESType(1 + r.Intn(8)), Text: gen.Text(r)}}})
			}
		case *rtcp.Goodbye:
			x.Sources = make([]uint32, count)
			for i := range x.Sources {
				x.Sources[i] = r.U32()
			}
		case *rtcp.ApplicationDefined:
			x.SubType = count
		case *rtcp.ExtendedReport:
			// the count position is reserved in XR: any value must still dispatch to XR
		}
		dialect := ref.Lib // CCFB in the library's pinned num_reports dialect (KF2 is not C07's business)
		if k == gen.SLI {
			dialect = ref.RFC // the registry of the statement: 206/2
		}
		e, err := ref.Encode(v, dialect)
		if err != nil {
			continue
		}
		if k == gen.XR {
			e.B[0] = e.B[0]&0xE0 | count
		}
		return e.B, k
	}
	return nil, k
}

func runC07(c *core.Ctx) {
	coldSection(c, c.N(66, 990), []string{"datagram", "compound", "own-decoder"})
	// (0) whatever the body: an ACCEPTED single frame of a registered combination has the registered
	// Go type. Every single-bit flip beyond the first two octets of a valid frame, and every aligned
	// word replaced by capitals / magic words / zeros / ones: the decoder may reject such a frame,
	// but a nil error with another type (a RawPacket, say) is a dispatch failure.
	combos := [][2]uint8{{200, 0}, {200, 1}, {201, 0}, {201, 2}, {202, 1}, {203, 1}, {204, 3}, {205, 1}, {205, 5}, {205, 11}, {205, 15}, {206, 1}, {206, 2}, {206, 4}, {206, 15}, {207, 0}}
	c.Section("accepted-type", uint64(len(combos))*c.N(40, 2000), func(cs *core.Case) {
		r := cs.R
		pc := combos[cs.Idx%uint64(len(combos))]
		b, k := registeredBody(r, pc[0], pc[1])
		if b == nil || len(b) > 512 {
			return
		}
		judge := func(in []byte, what string) bool {
			ps, err, pan := gUnmarshal(cloneBytes(in))
			cs.Eval(1)
			if pan != "" {
				cs.Fail("panic/rtcp.Unmarshal", core.W{"input_hex": mon.Hex(in, 200), "panic": pan})
				return false
			}
			if err != nil || len(ps) != 1 {
				cs.Count("accepted-type/rejected-or-split")
				return true
			}
			cs.Count("accepted-type/accepted/" + k.String())
			cs.Distinct(core.Digest([]byte("acc"), in))
			var kfs []string
			if k == gen.SLI {
				kfs = append(kfs, "KF1")
			}
			return cs.Check(gen.KindOf(ps[0]) == k, "dispatch/accepted-with-other-type/"+k.String(), func() core.W {
				return core.W{"input_hex": mon.Hex(in, 200), "valid_frame_hex": mon.Hex(b, 200), "change": what, "registered_type": k.String(), "decoded": vdump(ps)}
			}, kfs...)
		}
		limit := len(b)
		if limit > 64 {
			limit = 64
		}
		for off := 2; off < limit; off++ {
			for bit := 0; bit < 8; bit++ {
				in := cloneBytes(b)
				in[off] ^= 1 << bit
				if !judge(in, fmt.Sprintf("bit %d of octet %d flipped", bit, off)) {
					return
				}
			}
		}
		words := [][]byte{[]byte("REMC"), []byte("ABCD"), []byte("ZZZZ"), []byte("REMB"), {0, 0, 0, 0}, {0xFF, 0xFF, 0xFF, 0xFF}, {0x81, 201, 0, 1}, {0x8F, 206, 0, 4}}
		for off := 4; off+4 <= limit; off += 4 {
			for _, w := range words {
				in := cloneBytes(b)
				copy(in[off:], w)
				if !judge(in, fmt.Sprintf("word at %d replaced by %x", off, w)) {
					return
				}
			}
		}
	})
	// (1) dispatch: exhaustive over (pt, count, P); several bodies each
	c.Exhaustive("dispatch: all 256 PT x 32 count/FMT x 2 padding-bit header combinations", 256*32*2)
	reps := c.N(4, 200)
	c.Section("dispatch", 256*32*2, func(cs *core.Case) {
		r := cs.R
		pt := uint8(cs.Idx >> 6)
		count := uint8(cs.Idx >> 1 & 31)
		pbit := cs.Idx&1 == 1
		cs.DistinctN(1)
		if gen.IsRegistered(pt, count) {
			for rep := uint64(0); rep < reps; rep++ {
				b, k := registeredBody(r, pt, count)
				if b == nil {
					cs.C.Res.HarnessErrors = append(cs.C.Res.HarnessErrors, fmt.Sprintf("no reference body for %d/%d", pt, count))
					return
				}
				in := cloneBytes(b)
				if pbit {
					if k == gen.APP || k == gen.TWCC {
						if in[0]&0x20 == 0 {
							continue // these two carry real padding semantics: keep the reference's own P bit
						}
					} else {
						in[0] |= 0x20
					}
				} else if in[0]&0x20 != 0 {
					continue
				}
				ps, err, pan := gUnmarshal(cloneBytes(in))
				cs.Eval(1)
				cs.Distinct(core.Digest([]byte("dispatch"), in))
				det := func() core.W {
					return core.W{"input_hex": mon.Hex(in, 200), "pt": pt, "count": count, "padding": pbit, "expected_type": k.String(), "error": errStr(err), "decoded": vdump(ps)}
				}
				if pan != "" {
					cs.Fail("panic/rtcp.Unmarshal", core.W{"input_hex": mon.Hex(in, 200), "panic": pan})
					return
				}
				var kfs []string
				if k == gen.SLI {
					kfs = append(kfs, "KF1")
				}
				if err != nil {
					if pbit {
						cs.Count("registered-with-P-rejected/" + k.String())
						continue
					}
					cs.Fail("dispatch/registered-rejected/"+k.String(), det(), kfs...)
					continue
				}
				cs.Count("dispatch-registered/" + k.String())
				cs.Check(len(ps) == 1 && gen.KindOf(ps[0]) == k, "dispatch/registered-type/"+k.String(), det, kfs...)
			}
			return
		}
		// unregistered: RawPacket verbatim
		for shape := 0; shape < 8; shape++ {
			words := shape
			if shape == 7 {
				words = 1 + r.Intn(60)
			}
			in := make([]byte, 4+4*words)
			switch r.Intn(3) {
			case 0:
				copy(in[4:], r.Bytes(4*words))
			case 1:
				for i := 4; i < len(in); i++ {
					in[i] = 0xFF
				}
			}
			in[0] = 0x80 | count
			if pbit {
				in[0] |= 0x20
			}
			in[1] = pt
			in[2], in[3] = byte(words>>8), byte(words)
			ps, err, pan := gUnmarshal(cloneBytes(in))
			cs.Eval(1)
			cs.Distinct(core.Digest([]byte("dispatch"), in))
			if pan != "" {
				cs.Fail("panic/rtcp.Unmarshal", core.W{"input_hex": mon.Hex(in, 200), "panic": pan})
				return
			}
			ok := err == nil && len(ps) == 1
			if ok {
				rp, isRaw := ps[0].(*rtcp.RawPacket)
				ok = isRaw && bytes.Equal([]byte(*rp), in)
			}
			cs.CountN("dispatch-unregistered", 1)
			cs.Check(ok, "dispatch/unregistered-not-raw-verbatim", func() core.W {
				return core.W{"input_hex": mon.Hex(in, 200), "pt": pt, "count": count, "padding": pbit, "error": errStr(err), "decoded": vdump(ps)}
			})
		}
		if cs.Idx%977 == 0 {
			cs.Sample("dispatch-unregistered", func() any { return map[string]any{"pt": pt, "count": count, "padding": pbit} })
		}
	})

	// (2) foreign-type rejection matrix
	type uclass struct {
		name string
		gen  func(r *core.Rand) []byte
	}
	var classes []uclass
	for _, k := range gen.Registered {
		k := k
		classes = append(classes, uclass{k.String(), func(r *core.Rand) []byte {
			e, err := ref.Encode(gen.Packet(r, k, gen.Opts{NoBig: true}), ref.RFC)
			if err != nil {
				return nil
			}
			return e.B
		}})
	}
	classes = append(classes, uclass{"SliceLossIndication(library dialect 205/2)", func(r *core.Rand) []byte {
		e, _ := ref.Encode(gen.Packet(r, gen.SLI, gen.Opts{}), ref.Lib)
		return e.B
	}})
	// a REMB whose octets are also a complete transport-cc body: read as transport-cc, "REMB" is base
	// sequence 0x5245 / status count 0x4d42 = 19778, and the SSRC words are status chunks announcing
	// exactly that many not-received packets (so no delta octets are needed). Only the packet type
	// tells the two apart.
	classes = append(classes, uclass{"ReceiverEstimatedMaximumBitrate(body valid as transport-cc)", func(r *core.Rand) []byte {
		var chunks []uint16
		left := 19778
		for left > 0 {
			switch r.Intn(4) {
			case 0: // one-bit vector of 14 not-received
				chunks = append(chunks, 0x8000)
				left -= 14
			case 1: // two-bit vector of 7 not-received
				chunks = append(chunks, 0xC000)
				left -= 7
			default:
				run := 1 + r.Intn(8191)
				if run > left || r.Chance(1, 3) {
					run = left
					if run > 8191 {
						run = 8191
					}
				}
				chunks = append(chunks, uint16(run))
				left -= run
			}
			if len(chunks) > 400 {
				chunks = append(chunks[:0], 0x1FFF, 0x1FFF, 0x0D44)
				left = 0
			}
		}
		if len(chunks)%2 == 1 {
			chunks = append(chunks, 0)
		}
		n := len(chunks) / 2
		if n > 255 {
			return nil
		}
		sender := r.U32()
		b := []byte{0x8F, 206, 0, 0, byte(sender >> 24), byte(sender >> 16), byte(sender >> 8), byte(sender), 0, 0, 0, 0, 'R', 'E', 'M', 'B', byte(n), r.U8(), r.U8(), r.U8()}
		for _, c := range chunks {
			b = append(b, byte(c>>8), byte(c))
		}
		gen.FitLength(b)
		return b
	}})
	classes = append(classes, uclass{"raw-unregistered-FMT-under-205/206", func(r *core.Rand) []byte {
		for {
			rp := gen.RawValue(r)
			if (*rp)[1] == 205 || (*rp)[1] == 206 {
				return []byte(*rp)
			}
		}
	}})
	classes = append(classes, uclass{"raw-unregistered-PT", func(r *core.Rand) []byte {
		for {
			rp := gen.RawValue(r)
			if (*rp)[1] != 205 && (*rp)[1] != 206 {
				return []byte(*rp)
			}
		}
	}})
	nT, nU := uint64(len(gen.Registered)), uint64(len(classes))
	c.Exhaustive("foreign: all ordered (decoder T, class U) pairs", nT*nU-nT)
	perPair := c.N(2000, 500000)
	c.Section("foreign", nT*nU*perPair/50, func(cs *core.Case) {
		r := cs.R
		pair := cs.Idx % (nT * nU)
		T := gen.Registered[pair/nU]
		U := classes[pair%nU]
		if U.name == T.String() || (T == gen.REMB && strings.HasPrefix(U.name, "ReceiverEstimatedMaximumBitrate(")) {
			return // a decoder's own packets are not foreign to it
		}
		for i := 0; i < 50; i++ {
			in := U.gen(r)
			if in == nil {
				continue
			}
			if i%3 == 2 && pair%nU < uint64(len(gen.Registered)) {
				// a non-canonical encoding that the library itself still decodes as a U (surplus words,
				// padding shapes, odd inner values): it is a packet of type U for every practical purpose
				m := softMutate(r, in)
				if ps, err, pan := gUnmarshal(cloneBytes(m)); pan == "" && err == nil && len(ps) == 1 && gen.KindOf(ps[0]) == gen.Registered[pair%nU] {
					in = m
					cs.Count("foreign-noncanonical")
				}
			}
			_, err, pan := gUnmarshalOwn(T, cloneBytes(in))
			cs.Eval(1)
			cs.Distinct(core.Digest([]byte(T.String()), in))
			cs.Count("foreign/" + T.String())
			if pan != "" {
				cs.Fail("panic/Unmarshal", core.W{"decoder": T.String(), "input_hex": mon.Hex(in, 200), "panic": pan})
				return
			}
			var kfs []string
			if T == gen.CCFB && len(in) > 1 && in[1] == 205 {
				kfs = append(kfs, "KF4")
			}
			if T == gen.SLI && len(in) > 1 && in[0]&0x1F == 2 && ((in[1] == 205 && ref.LibSLI205) || in[1] == 206) {
				continue // the SLI decoder's own packets: 206/2, and 205/2 while the library speaks that dialect (KF1): not foreign
			}
			cs.Check(err != nil, "foreign/"+T.String()+"-accepts/"+U.name, func() core.W {
				return core.W{"decoder": T.String(), "foreign_class": U.name, "input_hex": mon.Hex(in, 200)}
			}, kfs...)
			if i%4 == 1 && len(in) >= 4 {
				// the same foreign frame into a receiver that is not fresh: one that decoded a genuine T
				// before, and/or whose exported Header field (where the type has one) already equals
				// the foreign frame's header — what the receiver holds must not stand in for a check
				rcv := gen.New(T)
				how := ""
				if r.Bool() {
					if e, eerr := ref.Encode(gen.Packet(r, T, gen.Opts{Small: true, NoBig: true}), ref.Lib); eerr == nil {
						core.Guard(func() { _ = rcv.Unmarshal(cloneBytes(e.B)) })
						how = "used "
					}
				}
				if f := reflect.ValueOf(rcv).Elem(); f.Kind() == reflect.Struct {
					if hf := f.FieldByName("Header"); hf.IsValid() && hf.CanSet() && hf.Type() == reflect.TypeOf(rtcp.Header{}) {
						hf.Set(reflect.ValueOf(rtcp.Header{Padding: in[0]&0x20 != 0, Count: in[0] & 0x1F, Type: rtcp.PacketType(in[1]), Length: uint16(in[2])<<8 | uint16(in[3])}))
						how += "header-preset"
					}
				}
				if how != "" {
					var perr error
					ppan, pv, pst := core.Guard(func() { perr = rcv.Unmarshal(cloneBytes(in)) })
					cs.Eval(1)
					cs.Count("foreign-prepared-receiver/" + T.String())
					if ppan {
						cs.Fail("panic/Unmarshal", core.W{"decoder": T.String(), "receiver": how, "input_hex": mon.Hex(in, 200), "panic": pv, "stack": pst})
						return
					}
					cs.Check(perr != nil, "foreign/"+T.String()+"-accepts/"+U.name, func() core.W {
						return core.W{"decoder": T.String(), "foreign_class": U.name, "receiver": how, "input_hex": mon.Hex(in, 200)}
					}, kfs...)
				}
			}
		}
		if cs.Idx < nT*nU {
			cs.Sample("foreign-pair", func() any { return map[string]any{"decoder": T.String(), "foreign": U.name} })
		}
	})

	// (2b) header transplant: a genuine T body under U's packet type / FMT. Judged only when the
	// library's own U decoder accepts the frame (so it is a U packet in the library's own eyes):
	// then T's decoder must reject it. This reaches type checks that only a body satisfying all of
	// T's other checks can get past.
	ptfmt := map[gen.Kind][2]int{gen.SR: {200, -1}, gen.RR: {201, -1}, gen.SDES: {202, -1}, gen.BYE: {203, -1}, gen.APP: {204, -1},
		gen.NACK: {205, 1}, gen.RRR: {205, 5}, gen.TWCC: {205, 15}, gen.CCFB: {205, 11}, gen.PLI: {206, 1}, gen.SLI: {205, 2}, gen.REMB: {206, 15}, gen.FIR: {206, 4}, gen.XR: {207, -1}}
	c.Section("transplant", nT*nT*c.N(400, 20000), func(cs *core.Case) {
		r := cs.R
		T := gen.Registered[cs.Idx%nT]
		U := gen.Registered[cs.Idx/nT%nT]
		if T == U {
			return
		}
		v := gen.Packet(r, T, gen.Opts{NoBig: true, Small: r.Chance(1, 2)})
		dialect := ref.Lib
		e, err := ref.Encode(v, dialect)
		if err != nil {
			return
		}
		in := cloneBytes(e.B)
		in[1] = byte(ptfmt[U][0])
		if f := ptfmt[U][1]; f >= 0 {
			in[0] = in[0]&0xE0 | byte(f)
		} else if r.Bool() {
			in[0] = in[0]&0xE0 | byte(r.Intn(32))
		}
		if _, uerr, upan := gUnmarshalOwn(U, cloneBytes(in)); upan != "" || uerr != nil {
			cs.Count("transplant-not-a-U")
			return
		}
		_, terr, tpan := gUnmarshalOwn(T, cloneBytes(in))
		cs.Eval(2)
		cs.Distinct(core.Digest([]byte("tp"), []byte(T.String()), in))
		cs.Count("transplant/" + T.String())
		if tpan != "" {
			cs.Fail("panic/Unmarshal", core.W{"decoder": T.String(), "input_hex": mon.Hex(in, 200), "panic": tpan})
			return
		}
		var kfs []string
		if T == gen.CCFB && in[1] == 205 {
			kfs = append(kfs, "KF4")
		}
		if T == gen.SLI && in[1] == 205 && in[0]&0x1F == 2 {
			return
		}
		cs.Check(terr != nil, "foreign/"+T.String()+"-accepts/transplanted-"+U.String(), func() core.W {
			return core.W{"decoder": T.String(), "header_of": U.String(), "input_hex": mon.Hex(in, 200), "note": "the frame carries " + U.String() + "'s packet type/FMT and is accepted by the library's own " + U.String() + " decoder"}
		}, kfs...)
	})
	// (3) self-dispatch
	c.Section("self-dispatch", c.N(150000, 12000000), func(cs *core.Case) {
		k := gen.Registered[cs.Idx%nT]
		v := gen.Packet(cs.R, k, gen.Opts{NoBig: true})
		b, err, pan := gMarshal(v)
		cs.Eval(1)
		if pan != "" {
			cs.Fail("panic/Marshal", core.W{"value": vdump(v), "panic": pan})
			return
		}
		if err != nil {
			return
		}
		ps, uerr, upan := gUnmarshal(cloneBytes(b))
		cs.Eval(1)
		cs.Distinct(core.Digest([]byte("self"), b))
		cs.Count("self-dispatch/" + k.String())
		if upan != "" {
			cs.Fail("panic/rtcp.Unmarshal", core.W{"input_hex": mon.Hex(b, 200), "panic": upan})
			return
		}
		var kfs []string
		if k == gen.SLI {
			kfs = append(kfs, "KF1")
		}
		cs.Check(uerr == nil && len(ps) == 1 && gen.KindOf(ps[0]) == k, "self-dispatch/"+k.String(), func() core.W {
			return core.W{"value": vdump(v), "marshal_hex": mon.Hex(b, 200), "error": errStr(uerr), "decoded": vdump(ps)}
		}, kfs...)
	})
	c.KnownWitness("KF1", func() (bool, string) {
		b, _ := (&rtcp.SliceLossIndication{SLI: []rtcp.SLIEntry{{First: 1}}}).Marshal()
		ps, err := rtcp.Unmarshal(b)
		if err != nil || len(ps) != 1 {
			return true, "own SLI output: " + errStr(err)
		}
		_, ok := ps[0].(*rtcp.SliceLossIndication)
		return !ok, "SliceLossIndication.Marshal output is dispatched to " + mon.TypeName(ps[0]) + "; a 206/2 frame is dispatched to the SLI decoder, which rejects it"
	})
	c.KnownWitness("KF4", func() (bool, string) {
		e, _ := ref.Encode(&rtcp.TransportLayerNack{Nacks: []rtcp.NackPair{{PacketID: 1}}}, ref.RFC)
		var d rtcp.CCFeedbackReport
		err := d.Unmarshal(e.B)
		return err == nil, "CCFeedbackReport.Unmarshal accepts a TransportLayerNack (PT 205, FMT 1): " + errStr(err)
	})
}
