package props

import (
	"fmt"
	"math"
	"strings"

	"github.com/pion/rtcp"

	"verifharness/internal/core"
	"verifharness/internal/gen"
	"verifharness/internal/mon"
	"verifharness/internal/ref"
)

func init() {
	core.Register(&core.PropDef{
		ID:        "C04",
		Run:       runC04,
		Technique: "runtime comparison of decoded fields with the model value for reference-made variant encodings; rejection monitor for count-inflated SR/RR/SDES/BYE",
		Rule: "model values from D encoded by the independent reference in RFC-permitted forms the library never emits (alternative TWCC chunkings incl. overshooting runs, unnormalised REMB mantissa/exponent pairs, APP with 0/4/8 extra padding octets, non-zero reserved bits in XR/FIR, unknown XR block types, stray bits in not-received CCFB metrics, BYE with/without/empty reason, every canonical reference encoding) " +
			"and every count inflation (c, c') of SR/RR/SDES/BYE; non-trivial = a variant of at least 8 octets was decoded; distinct by digest of the variant octets",
		Assumptions: []string{
			"the variants are exactly those the statement lists; generic RTCP padding on types other than APP/TWCC is not claimed",
			"for XR blocks of known type the XRHeader convenience field is not compared (only BlockType of unknown blocks and the semantic fields)",
			"CCFB is exercised in the library's pinned dialect (num_reports = n-1) with full strictness and additionally in the RFC 8888 dialect, where the expected mismatch is attributed to KF2",
		},
		MinDistinctQuick: 20000, MinDistinctThorough: 500000,
	})
}

// normXR clears the XRHeader convenience fields that the statement does not assign.
func normXR(p rtcp.Packet) rtcp.Packet {
	q := clonePacket(p)
	var fix func(rtcp.Packet)
	fix = func(p rtcp.Packet) {
		switch v := p.(type) {
		case *rtcp.ExtendedReport:
			for _, b := range v.Reports {
				switch x := b.(type) {
				case *rtcp.LossRLEReportBlock:
					x.XRHeader = rtcp.XRHeader{}
				case *rtcp.DuplicateRLEReportBlock:
					x.XRHeader = rtcp.XRHeader{}
				case *rtcp.PacketReceiptTimesReportBlock:
					x.XRHeader = rtcp.XRHeader{}
				case *rtcp.ReceiverReferenceTimeReportBlock:
					x.XRHeader = rtcp.XRHeader{}
				case *rtcp.DLRRReportBlock:
					x.XRHeader = rtcp.XRHeader{}
				case *rtcp.StatisticsSummaryReportBlock:
					x.XRHeader = rtcp.XRHeader{}
				case *rtcp.VoIPMetricsReportBlock:
					x.XRHeader = rtcp.XRHeader{}
				case *rtcp.UnknownReportBlock:
					x.XRHeader.BlockLength = 0
				}
			}
		case *rtcp.CompoundPacket:
			for _, m := range *v {
				fix(m)
			}
		}
	}
	fix(q)
	return q
}

// c04Decode decodes variant octets through the own decoder and the datagram decoder and
// compares with the expected value.
func c04Decode(cs *core.Case, aspect string, k gen.Kind, in []byte, want rtcp.Packet, model any, kfs ...string) {
	det := func(extra core.W) core.W {
		d := core.W{"variant_hex": mon.Hex(in, 256), "model": vdump(model), "expected": vdump(want)}
		for kk, vv := range extra {
			d[kk] = vv
		}
		return d
	}
	if len(in) >= 8 {
		cs.Distinct(core.Digest([]byte(aspect), in))
	}
	cs.Count(aspect)
	cs.Sample(aspect, func() any { return map[string]any{"variant_hex": mon.Hex(in, 96), "expected": vdump(want)} })
	got, derr, pan := gUnmarshalOwn(k, cloneBytes(in))
	cs.Eval(1)
	if pan != "" {
		cs.Fail("panic/Unmarshal", det(core.W{"panic": pan}))
		return
	}
	// known finding KF3 is attributed only to its exact symptom: the REMB decodes to 2^(exp+23)
	// and everything else is as expected; rejections and other differences are violations
	fk := kfs
	if k == gen.REMB && len(in) >= 20 {
		fk = without(kfs, "KF3")
		sym := clonePacket(want).(*rtcp.ReceiverEstimatedMaximumBitrate)
		sym.Bitrate = math.Float32frombits((uint32(in[17]>>2) + 23 + 127) << 23)
		for _, id := range kfs {
			if id == "KF3" {
				if g, ok := got.(*rtcp.ReceiverEstimatedMaximumBitrate); ok && derr == nil && mon.SemEqual(g, sym) {
					want = sym
					cs.Fail(aspect+"/own/fields", det(core.W{"decoded": vdump(got)}), "KF3")
				}
			}
		}
	}
	if derr != nil {
		cs.Fail(aspect+"/own/rejected", det(core.W{"error": errStr(derr)}), fk...)
	} else if !mon.SemEqual(normXR(got), normXR(want)) {
		cs.Fail(aspect+"/own/fields", det(core.W{"decoded": vdump(got)}), fk...)
	}
	dk := fk
	if k == gen.SLI {
		dk = append(append([]string{}, kfs...), "KF1")
	}
	ps, uerr, upan := gUnmarshal(cloneBytes(in))
	cs.Eval(1)
	if upan != "" {
		cs.Fail("panic/rtcp.Unmarshal", det(core.W{"panic": upan}))
		return
	}
	if uerr != nil {
		cs.Fail(aspect+"/datagram/rejected", det(core.W{"error": errStr(uerr)}), dk...)
	} else if len(ps) != 1 || gen.KindOf(ps[0]) != k || !mon.SemEqual(normXR(ps[0]), normXR(want)) {
		cs.Fail(aspect+"/datagram/fields", det(core.W{"decoded": vdump(ps)}), dk...)
	}
}

func patchFields(e *ref.Enc, match func(name string) bool, f func(b []byte, name string)) {
	for _, fl := range e.Fields {
		if match(fl.Name) {
			f(e.B[fl.Off:fl.Off+fl.Len], fl.Name)
		}
	}
}

func runC04(c *core.Ctx) {
	// (0) every canonical reference encoding decodes to the model value
	c.Section("canonical", c.N(600000, 24000000), func(cs *core.Case) {
		k := gen.Registered[cs.Idx%uint64(len(gen.Registered))]
		v := gen.Packet(cs.R, k, gen.Opts{})
		e, err := ref.Encode(v, ref.Lib)
		if err != nil {
			return
		}
		var kfs []string
		if gen.IsKF3(v) {
			kfs = append(kfs, "KF3")
		}
		c04Decode(cs, "canonical/"+k.String(), k, e.B, quantise(v), v, kfs...)
	})
	// (0a) reference encodings of 64 KiB and more (one huge XR block / SDES chunk / APP payload, or
	// very many small ones): the sizes at which 16-bit byte arithmetic in a decoder wraps (seed C04p)
	c.Section("big-encodings", c.N(300, 6000), func(cs *core.Case) {
		v := gen.BigPacket(cs.R)
		if gen.IsKF2(v) {
			// a CCFB block with exactly one metric block (open finding KF2) is outside this section,
			// as it is outside the canonical one (which draws values without AllowKF)
			cs.Count("big/skipped-KF2-value")
			return
		}
		e, err := ref.Encode(v, ref.Lib)
		if err != nil {
			return
		}
		k := gen.KindOf(v)
		var kfs []string
		if gen.IsKF3(v) {
			kfs = append(kfs, "KF3")
		}
		c04Decode(cs, "big/"+k.String(), k, e.B, quantise(v), v, kfs...)
	})
	// (0b) RFC dialect for the two pinned deviations
	c.Section("rfc-dialect", c.N(40000, 600000), func(cs *core.Case) {
		if cs.Idx%2 == 0 {
			v := gen.Packet(cs.R, gen.SLI, gen.Opts{})
			e, _ := ref.Encode(v, ref.RFC)
			// an RFC-conformant SLI (206/2) must come back as an SLI with these fields
			ps, uerr, upan := gUnmarshal(cloneBytes(e.B))
			cs.Eval(1)
			cs.Distinct(core.Digest(e.B))
			if upan != "" {
				cs.Fail("panic/rtcp.Unmarshal", core.W{"variant_hex": mon.Hex(e.B, 128), "panic": upan})
				return
			}
			ok := uerr == nil && len(ps) == 1 && mon.SemEqual(ps[0], v)
			cs.Check(ok, "rfc-dialect/SLI", func() core.W {
				return core.W{"variant_hex": mon.Hex(e.B, 128), "error": errStr(uerr), "decoded": vdump(ps), "expected": vdump(v)}
			}, "KF1")
			return
		}
		v := gen.Packet(cs.R, gen.CCFB, gen.Opts{NoBig: true})
		e, err := ref.Encode(v, ref.RFC)
		if err != nil {
			return
		}
		var kfs []string
		if gen.HasCCFBMetrics(v) {
			kfs = append(kfs, "KF2")
		}
		c04Decode(cs, "rfc-dialect/CCFB", gen.CCFB, e.B, v, v, kfs...)
	})
	// (1) TWCC chunkings
	c.Section("twcc-chunkings", c.N(50000, 5000000), func(cs *core.Case) {
		r := cs.R
		m := gen.TWCCModelGen(r, gen.Opts{NoBig: !r.Chance(1, 100)})
		want := modelProjection(m)
		for kk := 0; kk < 4; kk++ {
			chunks := m.Chunks(r, gen.ChunkOpts{OvershootRun: true, ZeroRuns: r.Chance(1, 3)})
			e, err := ref.Encode(m.Value(chunks), ref.RFC)
			if err != nil {
				cs.C.Res.HarnessErrors = append(cs.C.Res.HarnessErrors, "reference cannot encode generated TWCC: "+err.Error())
				return
			}
			// RFC 3550 padding may be whole words: 1..3 (now and then up to the maximum count 255)
			// extra padding words after the deltas, the padding bit set, the last octet the count
			if kk >= 2 && r.Chance(2, 3) {
				b := cloneBytes(e.B)
				oldPad := 0
				if b[0]&0x20 != 0 {
					oldPad = int(b[len(b)-1])
					b[len(b)-1] = r.U8() // no longer the last octet: content of padding is free
				}
				words := 1 + r.Intn(3)
				if r.Chance(1, 10) {
					words = (255 - oldPad) / 4
				}
				if words >= 1 && oldPad+4*words <= 255 && len(b)+4*words <= 65532 {
					b = append(b, r.Bytes(4*words)...)
					b[len(b)-1] = byte(oldPad + 4*words)
					b[0] |= 0x20
					gen.FitLength(b)
					e = &ref.Enc{B: b}
					cs.Count("twcc-chunking/extra-padding-words")
				}
			}
			cs.Distinct(core.Digest(e.B))
			cs.Count("twcc-chunking")
			for _, via := range []string{"own", "datagram"} {
				var t *rtcp.TransportLayerCC
				var derr error
				var pan string
				if via == "own" {
					var g rtcp.Packet
					g, derr, pan = gUnmarshalOwn(gen.TWCC, cloneBytes(e.B))
					if derr == nil && pan == "" {
						t = g.(*rtcp.TransportLayerCC)
					}
				} else {
					var ps []rtcp.Packet
					ps, derr, pan = gUnmarshal(cloneBytes(e.B))
					if derr == nil && pan == "" {
						if len(ps) == 1 {
							t, _ = ps[0].(*rtcp.TransportLayerCC)
						}
						if t == nil {
							derr = fmt.Errorf("not dispatched to TransportLayerCC: %s", vdump(ps))
						}
					}
				}
				cs.Eval(1)
				det := func(extra core.W) core.W {
					d := core.W{"variant_hex": mon.Hex(e.B, 256), "model_status": fmt.Sprint(m.Status), "model_deltas": fmt.Sprint(m.Deltas), "chunking": vdump(chunks)}
					for a, b := range extra {
						d[a] = b
					}
					return d
				}
				if pan != "" {
					cs.Fail("panic/Unmarshal", det(core.W{"panic": pan}))
					return
				}
				if derr != nil {
					cs.Fail("twcc-chunkings/"+via+"/rejected", det(core.W{"error": errStr(derr)}))
					continue
				}
				proj, perr := projectTWCC(t)
				if perr != nil || !mon.SemEqual(proj, want) {
					cs.Fail("twcc-chunkings/"+via+"/fields", det(core.W{"decoded": vdump(t), "problem": fmt.Sprint(perr)}))
				}
			}
		}
	})
	// (2) unnormalised REMB pairs
	c.Section("remb-pairs", c.N(60000, 6000000), func(cs *core.Case) {
		r := cs.R
		// odd-or-small mantissa m0 and exponent e0; every (m0<<k, e0-k) denotes the same value
		m0 := uint32(r.Intn(1 << 18))
		if r.Chance(1, 4) {
			m0 = uint32(r.Pick(1, 2, 3, 0x20000, 0x3FFFF, 0x1FFFF))
		}
		if m0 == 0 {
			m0 = 1
		}
		if r.Chance(1, 40) {
			m0 = 0 // the 64 mantissa-0 wire values (KF3)
		}
		e0 := uint8(r.Intn(64))
		sender := r.B32()
		var ssrcs []uint32
		for i := r.Intn(4); i > 0; i-- {
			ssrcs = append(ssrcs, r.B32())
		}
		wantBits := ref.REMBDecodeBits(e0, m0)
		want := &rtcp.ReceiverEstimatedMaximumBitrate{SenderSSRC: sender, Bitrate: math.Float32frombits(wantBits), SSRCs: ssrcs}
		for k := uint8(0); k <= e0 && (m0<<k) < 1<<18; k++ {
			mk, ek := m0<<k, e0-k
			b := []byte{0x8F, 206, 0, byte(4 + len(ssrcs)), byte(sender >> 24), byte(sender >> 16), byte(sender >> 8), byte(sender), 0, 0, 0, 0, 'R', 'E', 'M', 'B',
				byte(len(ssrcs)), ek<<2 | byte(mk>>16), byte(mk >> 8), byte(mk)}
			for _, s := range ssrcs {
				b = append(b, byte(s>>24), byte(s>>16), byte(s>>8), byte(s))
			}
			var kfs []string
			if m0 == 0 {
				kfs = append(kfs, "KF3")
			}
			c04Decode(cs, "remb-pairs", gen.REMB, b, want, fmt.Sprintf("mantissa %d<<%d exp %d-%d", m0, k, e0, k), kfs...)
			if m0 == 0 {
				break
			}
		}
	})
	// (3) APP with extra padding
	c.Section("app-padding", c.N(60000, 1500000), func(cs *core.Case) {
		r := cs.R
		v := gen.Packet(r, gen.APP, gen.Opts{}).(*rtcp.ApplicationDefined)
		if cs.Idx%256 == 0 {
			// large payloads: 64 KiB and more on the wire (where 16-bit byte arithmetic wraps), up to the maximum frame
			v.Data = r.Bytes(r.Pick(65517, 65518, 65519, 65520, 65521, 65522, 65523, 65524, 65528, 65536, 100000, 131072, 196608, 262120))
		}
		base := pad4local(len(v.Data))
		for j := 0; j <= 2; j++ {
			pad := base + 4*j
			b := []byte{0x80 | v.SubType, 204, 0, 0, byte(v.SSRC >> 24), byte(v.SSRC >> 16), byte(v.SSRC >> 8), byte(v.SSRC)}
			b = append(b, v.Name...)
			b = append(b, v.Data...)
			if pad > 0 {
				b[0] |= 0x20
				fill := r.Bytes(pad)
				fill[pad-1] = byte(pad)
				b = append(b, fill...)
			}
			w := len(b)/4 - 1
			if w > 0xFFFF {
				continue
			}
			b[2], b[3] = byte(w>>8), byte(w)
			c04Decode(cs, fmt.Sprintf("app-padding/%d-extra", 4*j), gen.APP, b, v, v)
		}
	})
	// (4) reserved bits / stray bits / unknown XR blocks
	c.Section("reserved-bits", c.N(80000, 8000000), func(cs *core.Case) {
		r := cs.R
		switch cs.Idx % 3 {
		case 0: // XR
			x := gen.Packet(r, gen.XR, gen.Opts{}).(*rtcp.ExtendedReport)
			e, err := ref.Encode(x, ref.RFC)
			if err != nil {
				return
			}
			e.B[0] |= byte(r.Intn(32)) // header reserved field (count position)
			patchFields(e, func(n string) bool { return strings.HasSuffix(n, "type_specific") }, func(b []byte, n string) {
				var idx int
				_, _ = fmt.Sscanf(n, "block[%d].", &idx)
				switch x.Reports[idx].(type) {
				case *rtcp.LossRLEReportBlock, *rtcp.DuplicateRLEReportBlock, *rtcp.PacketReceiptTimesReportBlock:
					b[0] |= byte(r.Intn(16)) << 4
				case *rtcp.ReceiverReferenceTimeReportBlock, *rtcp.DLRRReportBlock, *rtcp.VoIPMetricsReportBlock:
					b[0] = r.U8()
				case *rtcp.StatisticsSummaryReportBlock:
					b[0] |= byte(r.Intn(8))
				}
			})
			patchFields(e, func(n string) bool { return strings.HasSuffix(n, ".reserved") }, func(b []byte, n string) { b[0] = r.U8() })
			c04Decode(cs, "reserved-bits/XR", gen.XR, e.B, x, x)
		case 1: // FIR
			v := gen.Packet(r, gen.FIR, gen.Opts{Small: true}).(*rtcp.FullIntraRequest)
			e, _ := ref.Encode(v, ref.RFC)
			patchFields(e, func(n string) bool { return strings.HasSuffix(n, ".reserved") }, func(b []byte, n string) { copy(b, r.Bytes(3)) })
			c04Decode(cs, "reserved-bits/FIR", gen.FIR, e.B, v, v)
		default: // CCFB not-received metrics with stray bits (library dialect for num_reports)
			v := gen.Packet(r, gen.CCFB, gen.Opts{NoBig: true}).(*rtcp.CCFeedbackReport)
			e, err := ref.Encode(v, ref.Lib)
			if err != nil {
				return
			}
			patchFields(e, func(n string) bool { return strings.Contains(n, "metric[") }, func(b []byte, n string) {
				if b[0]&0x80 == 0 {
					s := r.U16() & 0x7FFF
					b[0], b[1] = byte(s>>8), byte(s)
				}
			})
			c04Decode(cs, "reserved-bits/CCFB-stray", gen.CCFB, e.B, v, v)
		}
	})
	// (5) BYE forms
	c.Section("bye-forms", c.N(30000, 600000), func(cs *core.Case) {
		r := cs.R
		v := gen.Packet(r, gen.BYE, gen.Opts{}).(*rtcp.Goodbye)
		v.Reason = ""
		// (a) without reason, (b) with an empty reason (length octet 0 + 3 pad), (c) with a reason
		hdr := func(n int) []byte { return []byte{0x80 | byte(len(v.Sources)), 203, 0, 0} }
		body := hdr(0)
		for _, s := range v.Sources {
			body = append(body, byte(s>>24), byte(s>>16), byte(s>>8), byte(s))
		}
		fin := func(b []byte) []byte {
			w := len(b)/4 - 1
			b[2], b[3] = byte(w>>8), byte(w)
			return b
		}
		c04Decode(cs, "bye-forms/no-reason", gen.BYE, fin(cloneBytes(body)), v, v)
		c04Decode(cs, "bye-forms/empty-reason", gen.BYE, fin(append(cloneBytes(body), 0, 0, 0, 0)), v, v)
		txt := gen.Text(r)
		if txt != "" {
			w := clonePacket(v).(*rtcp.Goodbye)
			w.Reason = txt
			b := append(cloneBytes(body), byte(len(txt)))
			b = append(b, txt...)
			for len(b)%4 != 0 {
				b = append(b, 0)
			}
			c04Decode(cs, "bye-forms/reason", gen.BYE, fin(b), w, w)
		}
	})
	// (6) count inflation: all (c, c') for SR, RR, SDES, BYE
	c.Section("count-inflation", c.N(20000, 2000000), func(cs *core.Case) {
		r := cs.R
		kinds := []gen.Kind{gen.SR, gen.RR, gen.SDES, gen.BYE}
		k := kinds[cs.Idx%4]
		v := gen.Packet(r, k, gen.Opts{})
		switch x := v.(type) {
		case *rtcp.SenderReport:
			x.ProfileExtensions = nil
		case *rtcp.ReceiverReport:
			x.ProfileExtensions = nil
		case *rtcp.Goodbye:
			x.Reason = ""
		}
		e, err := ref.Encode(v, ref.RFC)
		if err != nil {
			return
		}
		cnt := int(e.B[0] & 0x1F)
		cs.Distinct(core.Digest([]byte("inflate"), e.B))
		for c2 := cnt + 1; c2 <= 31; c2++ {
			in := cloneBytes(e.B)
			in[0] = in[0]&0xE0 | byte(c2)
			_, derr, pan := gUnmarshalOwn(k, cloneBytes(in))
			ps, uerr, upan := gUnmarshal(cloneBytes(in))
			cs.Eval(2)
			cs.Count("count-inflation/" + k.String())
			if pan != "" || upan != "" {
				cs.Fail("panic/Unmarshal", core.W{"variant_hex": mon.Hex(in, 256), "panic": pan + upan})
				return
			}
			det := func() core.W {
				return core.W{"variant_hex": mon.Hex(in, 256), "true_count": cnt, "claimed_count": c2, "own_error": errStr(derr), "datagram_error": errStr(uerr), "datagram": vdump(ps)}
			}
			cs.Check(derr != nil, "count-inflation/own-accepted/"+k.String(), det)
			cs.Check(uerr != nil && ps == nil, "count-inflation/datagram-accepted/"+k.String(), det)
		}
	})
	c.KnownWitness("KF1", func() (bool, string) {
		e, _ := ref.Encode(&rtcp.SliceLossIndication{SLI: []rtcp.SLIEntry{{First: 1, Number: 2, Picture: 3}}}, ref.RFC)
		ps, err := rtcp.Unmarshal(e.B)
		return err != nil, "an RFC 4585 SLI (PT 206, FMT 2) is rejected by rtcp.Unmarshal: " + errStr(err) + " " + vdump(ps)
	})
	c.KnownWitness("KF2", func() (bool, string) {
		v := &rtcp.CCFeedbackReport{ReportBlocks: []rtcp.CCFeedbackReportBlock{{MediaSSRC: 1, BeginSequence: 10, MetricBlocks: make([]rtcp.CCFeedbackMetricBlock, 2)}}}
		e, _ := ref.Encode(v, ref.RFC)
		var d rtcp.CCFeedbackReport
		err := d.Unmarshal(e.B)
		n := -1
		if err == nil && len(d.ReportBlocks) > 0 {
			n = len(d.ReportBlocks[0].MetricBlocks)
		}
		return err != nil || n != 2, fmt.Sprintf("an RFC 8888 block with num_reports=2 decodes to %d metric blocks (err=%s)", n, errStr(err))
	})
	c.KnownWitness("KF3", func() (bool, string) {
		var d rtcp.ReceiverEstimatedMaximumBitrate
		err := d.Unmarshal([]byte{0x8F, 206, 0, 4, 0, 0, 0, 1, 0, 0, 0, 0, 'R', 'E', 'M', 'B', 0, 5 << 2, 0, 0})
		return err == nil && d.Bitrate != 0, "REMB wire mantissa 0 (exp 5) decodes to " + vdump(d.Bitrate)
	})
}

func pad4local(n int) int { return (4 - n%4) % 4 }
