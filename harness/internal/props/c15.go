package props

import (
	"bytes"
	"fmt"

	"github.com/pion/rtcp"

	"verifharness/internal/core"
	"verifharness/internal/gen"
	"verifharness/internal/mon"
	"verifharness/internal/ref"
)

func init() {
	core.Register(&core.PropDef{
		ID:        "C15",
		Run:       runC15,
		Technique: "runtime check of ExtendedReport.Marshal output with an independent block walker; decode order/type/value, neighbour independence and verbatim survival of unknown blocks",
		Rule: "sequences of 0..8 report blocks over the 7 defined kinds and unknown kinds (0, 8..255): every kind order for k <= 3 (exhaustive over the 585 kind sequences, fresh field values each repetition), random sequences up to k = 8, list lengths 0..40, blocks with length fields around 2^14 words and up to 65533, all 16 T values, all flag/ToH combinations, every unknown block type arriving from the wire; " +
			"non-trivial = at least one block; distinct by digest of the marshalled octets",
		Assumptions: []string{
			"RFC 3611 positions: T in the low nibble of the type-specific octet of BT 1-3; L/D/J in bits 7/6/5 and ToH in bits 4-3 of BT 6; zero for BT 4, 5, 7",
			"blocks whose wire size is not a multiple of 4 (odd RLE chunk count, unknown content not a multiple of 4) are generated in a minority of cases and attributed to KF5",
		},
		MinDistinctQuick: 20000, MinDistinctThorough: 1000000,
	})
}

func xrExpectedTS(b rtcp.ReportBlock) (bt, ts uint8) {
	switch v := b.(type) {
	case *rtcp.LossRLEReportBlock:
		return 1, v.T & 0x0F
	case *rtcp.DuplicateRLEReportBlock:
		return 2, v.T & 0x0F
	case *rtcp.PacketReceiptTimesReportBlock:
		return 3, v.T & 0x0F
	case *rtcp.ReceiverReferenceTimeReportBlock:
		return 4, 0
	case *rtcp.DLRRReportBlock:
		return 5, 0
	case *rtcp.StatisticsSummaryReportBlock:
		var t uint8
		if v.LossReports {
			t |= 0x80
		}
		if v.DuplicateReports {
			t |= 0x40
		}
		if v.JitterReports {
			t |= 0x20
		}
		return 6, t | uint8(v.TTLorHopLimit&3)<<3
	case *rtcp.VoIPMetricsReportBlock:
		return 7, 0
	case *rtcp.UnknownReportBlock:
		return uint8(v.BlockType), uint8(v.TypeSpecific)
	}
	return 0, 0
}

// normBlock returns the block with the XRHeader convenience field cleared (for known kinds;
// for unknown blocks only the derived BlockLength): the statement is about the wire and the
// semantic fields, not about that field.
func normBlock(b rtcp.ReportBlock) rtcp.ReportBlock {
	x := normXR(&rtcp.ExtendedReport{Reports: []rtcp.ReportBlock{b}}).(*rtcp.ExtendedReport)
	return x.Reports[0]
}

func c15Judge(cs *core.Case, x *rtcp.ExtendedReport) {
	kf5 := gen.IsKF5(x)
	var kfs []string
	if kf5 {
		kfs = append(kfs, "KF5")
	}
	kinds := ""
	for i, b := range x.Reports {
		if i == 40 {
			kinds += fmt.Sprintf("… (%d blocks)", len(x.Reports))
			break
		}
		kinds += gen.XRKindOf(b).String() + " "
	}
	b, err, pan := gMarshal(x)
	cs.Eval(1)
	det := func(extra core.W) func() core.W {
		return func() core.W {
			d := core.W{"blocks": kinds, "value": vdump(x), "marshal_hex": mon.Hex(b, 300)}
			for k, v := range extra {
				d[k] = v
			}
			return d
		}
	}
	if pan != "" {
		cs.Fail("panic/Marshal", det(core.W{"panic": pan})())
		return
	}
	if err != nil {
		cs.Fail("marshal-error", det(core.W{"error": errStr(err)})(), kfs...)
		return
	}
	if len(x.Reports) > 0 {
		cs.Distinct(core.Digest(b))
	}
	cs.Count(fmt.Sprintf("blocks-%d", len(x.Reports)))
	cs.Sample(fmt.Sprintf("xr-%d-blocks", len(x.Reports)), func() any { return map[string]any{"blocks": kinds, "marshal_hex": mon.Hex(b, 96)} })
	// independent walk
	ssrc, blocks, werr := ref.WalkXR(b)
	if werr != nil || len(blocks) != len(x.Reports) || ssrc != x.SenderSSRC {
		cs.Fail("walk/self-delimiting", det(core.W{"walker_error": fmt.Sprint(werr), "blocks_found": len(blocks), "blocks_expected": len(x.Reports)})(), kfs...)
		return
	}
	for i, wb := range blocks {
		bt, ts := xrExpectedTS(x.Reports[i])
		if !cs.Check(wb.BT == bt, "walk/block-type", det(core.W{"index": i, "got": wb.BT, "expected": bt}), kfs...) {
			return
		}
		if !cs.Check(wb.TypeSpecific == ts, "walk/type-specific", det(core.W{"index": i, "got": wb.TypeSpecific, "expected": ts}), kfs...) {
			return
		}
	}
	// reference layout of the whole packet (block length = words-1 of the octets up to the next block is implied by the walk)
	if e, rerr := ref.Encode(x, ref.RFC); rerr == nil {
		if off := firstDiff(b, e.B, e.Mask); off >= 0 {
			cs.Fail("layout", det(core.W{"reference_hex": mon.Hex(e.B, 300), "first_difference_at": off, "field": e.FieldAt(off)})(), kfs...)
			return
		}
	}
	// decode: same number of blocks, registered Go type per BT, equal values
	got, derr, dpan := gUnmarshalOwn(gen.XR, cloneBytes(b))
	cs.Eval(1)
	if dpan != "" {
		cs.Fail("panic/Unmarshal", det(core.W{"panic": dpan})())
		return
	}
	if derr != nil {
		cs.Fail("decode/rejected", det(core.W{"error": errStr(derr)})(), kfs...)
		return
	}
	gx := got.(*rtcp.ExtendedReport)
	if what, shared := mon.SharedElems(gx); shared {
		// blocks decode independently of their neighbours: no two positions are one object
		cs.Fail("decode/positions-share-an-object", det(core.W{"what": what})())
		return
	}
	if len(gx.Reports) != len(x.Reports) {
		cs.Fail("decode/block-count", det(core.W{"decoded": vdump(gx)})(), kfs...)
		return
	}
	for i := range x.Reports {
		wantKind := gen.XRKindOf(x.Reports[i])
		if !cs.Check(gen.XRKindOf(gx.Reports[i]) == wantKind, "decode/block-go-type", det(core.W{"index": i, "decoded": vdump(gx.Reports[i])}), kfs...) {
			return
		}
		if !cs.Check(mon.SemEqual(normBlock(gx.Reports[i]), normBlock(x.Reports[i])), "decode/block-value", det(core.W{"index": i, "decoded": vdump(gx.Reports[i]), "expected": vdump(x.Reports[i])}), kfs...) {
			return
		}
	}
	// neighbour independence: block i decoded inside the packet == decoded alone
	if len(x.Reports) >= 2 {
		for i, wb := range blocks {
			single := append(cloneBytes(b[:8]), b[wb.Off:wb.Off+wb.Size]...)
			gen.FitLength(single)
			g1, e1, p1 := gUnmarshalOwn(gen.XR, single)
			cs.Eval(1)
			if p1 != "" {
				cs.Fail("panic/Unmarshal", det(core.W{"panic": p1, "single_block_hex": mon.Hex(single, 200)})())
				return
			}
			if e1 != nil || len(g1.(*rtcp.ExtendedReport).Reports) != 1 || !mon.SemEqual(normBlock(g1.(*rtcp.ExtendedReport).Reports[0]), normBlock(gx.Reports[i])) {
				cs.Fail("neighbour-independence", det(core.W{"index": i, "alone_error": errStr(e1), "alone": vdump(g1), "in_packet": vdump(gx.Reports[i])})(), kfs...)
				return
			}
		}
	}
	// re-encoding the decoded packet reproduces the octets (unknown blocks verbatim)
	b2, err2, pan2 := gMarshal(gx)
	cs.Eval(1)
	if pan2 != "" {
		cs.Fail("panic/Marshal", det(core.W{"panic": pan2})())
		return
	}
	if err2 != nil || !bytes.Equal(b2, b) {
		cs.Fail("reencode", det(core.W{"error": errStr(err2), "reencoded_hex": mon.Hex(b2, 300)})(), kfs...)
	}
}

func runC15(c *core.Ctx) {
	// (1) every kind order for k <= 3 (585 sequences) x repetitions
	nk := uint64(gen.NumXRKinds)
	seqs := 1 + nk + nk*nk + nk*nk*nk
	c.Exhaustive("all orders of the 8 block kinds for k <= 3", seqs)
	c.Section("orders", seqs*c.N(60, 8000), func(cs *core.Case) {
		x := cs.Idx % seqs
		var kinds []gen.XRKind
		switch {
		case x == 0:
		case x < 1+nk:
			kinds = []gen.XRKind{gen.XRKind(x - 1)}
		case x < 1+nk+nk*nk:
			x -= 1 + nk
			kinds = []gen.XRKind{gen.XRKind(x / nk), gen.XRKind(x % nk)}
		default:
			x -= 1 + nk + nk*nk
			kinds = []gen.XRKind{gen.XRKind(x / (nk * nk)), gen.XRKind(x / nk % nk), gen.XRKind(x % nk)}
		}
		r := cs.R
		xr := &rtcp.ExtendedReport{SenderSSRC: r.B32()}
		unaligned := r.Chance(1, 12)
		for _, k := range kinds {
			xr.Reports = append(xr.Reports, gen.XRBlock(r, k, unaligned))
		}
		if r.Chance(1, 3) {
			gen.PrefillXRHeaders(r, xr) // what an earlier Marshal/Unmarshal of since-modified blocks leaves behind
		}
		c15Judge(cs, xr)
	})
	// (2) random sequences up to 8
	c.Section("random", c.N(60000, 15000000), func(cs *core.Case) {
		r := cs.R
		xr := &rtcp.ExtendedReport{SenderSSRC: r.B32()}
		unaligned := r.Chance(1, 12)
		for i := r.Intn(9); i > 0; i-- {
			xr.Reports = append(xr.Reports, gen.XRBlock(r, gen.XRKind(r.Intn(int(nk))), unaligned))
		}
		if n := len(xr.Reports); n > 0 && n < 9 && r.Chance(1, 5) {
			// twins: one block at two neighbouring positions (identical octets one after the other)
			i := r.Intn(n)
			xr.Reports = append(xr.Reports[:i+1], append([]rtcp.ReportBlock{xr.Reports[i]}, xr.Reports[i+1:]...)...)
		}
		if r.Chance(1, 3) {
			gen.PrefillXRHeaders(r, xr)
		}
		c15Judge(cs, xr)
	})
	// (2b) large blocks: block lengths around 2^14 words (where 4*(length+1) crosses 65536) and up to the maximum
	c.Section("large-blocks", c.N(160, 3000), func(cs *core.Case) {
		r := cs.R
		xr := &rtcp.ExtendedReport{SenderSSRC: r.B32()}
		words := r.Pick(16381, 16382, 16383, 16384, 16385, 32767, 32768, 49151, 65533) // block length field
		var big rtcp.ReportBlock
		switch cs.Idx % 4 {
		case 0: // RLE: length = 2 + chunks/2
			cs2 := make([]rtcp.Chunk, 2*(words-2))
			for i := range cs2 {
				cs2[i] = rtcp.Chunk(r.U16())
			}
			if r.Bool() {
				big = &rtcp.LossRLEReportBlock{T: uint8(r.Intn(16)), SSRC: r.U32(), BeginSeq: r.U16(), EndSeq: r.U16(), Chunks: cs2}
			} else {
				big = &rtcp.DuplicateRLEReportBlock{T: uint8(r.Intn(16)), SSRC: r.U32(), BeginSeq: r.U16(), EndSeq: r.U16(), Chunks: cs2}
			}
		case 1: // receipt times: length = 2 + n
			ts := make([]uint32, words-2)
			for i := range ts {
				ts[i] = r.U32()
			}
			big = &rtcp.PacketReceiptTimesReportBlock{T: uint8(r.Intn(16)), SSRC: r.U32(), ReceiptTime: ts}
		case 2: // DLRR: length = 3n
			n := words / 3
			rs := make([]rtcp.DLRRReport, n)
			for i := range rs {
				rs[i] = rtcp.DLRRReport{SSRC: r.U32(), LastRR: r.U32(), DLRR: r.U32()}
			}
			big = &rtcp.DLRRReportBlock{Reports: rs}
		default: // unknown: length = len/4
			big = &rtcp.UnknownReportBlock{XRHeader: rtcp.XRHeader{BlockType: rtcp.BlockTypeType(8 + r.Intn(200)), TypeSpecific: rtcp.TypeSpecificField(r.U8())}, Bytes: r.Bytes(4 * words)}
		}
		if words < 60000 {
			for i := r.Intn(3); i > 0; i-- {
				xr.Reports = append(xr.Reports, gen.XRBlock(r, gen.XRKind(r.Intn(int(nk))), false))
			}
		}
		xr.Reports = append(xr.Reports, big)
		if words < 60000 {
			for i := r.Intn(3); i > 0; i-- {
				xr.Reports = append(xr.Reports, gen.XRBlock(r, gen.XRKind(r.Intn(int(nk))), false))
			}
		}
		c15Judge(cs, xr)
	})
	// (2c) very many small blocks: block counts around 2^14 and up to what the 16-bit length field
	// allows (every block is found, none is dropped; after seed C15l)
	c.Section("many-blocks", c.N(24, 400), func(cs *core.Case) {
		c15Judge(cs, gen.ManyBlocksXR(cs.R))
	})
	// (3) all T values and all flag/ToH combinations
	c.Exhaustive("all 16 T values x 3 block types; all 32 L/D/J/ToH combinations", 16*3+32)
	c.Once("type-specific-all", func(cs *core.Case) {
		r := cs.R
		for t := 0; t < 16; t++ {
			c15Judge(cs, &rtcp.ExtendedReport{SenderSSRC: r.U32(), Reports: []rtcp.ReportBlock{
				&rtcp.LossRLEReportBlock{T: uint8(t), SSRC: r.U32(), Chunks: []rtcp.Chunk{1, 2}},
				&rtcp.DuplicateRLEReportBlock{T: uint8(t), SSRC: r.U32()},
				&rtcp.PacketReceiptTimesReportBlock{T: uint8(t), SSRC: r.U32(), ReceiptTime: []uint32{r.U32()}}}})
		}
		for f := 0; f < 32; f++ {
			c15Judge(cs, &rtcp.ExtendedReport{SenderSSRC: r.U32(), Reports: []rtcp.ReportBlock{
				&rtcp.StatisticsSummaryReportBlock{LossReports: f&1 != 0, DuplicateReports: f&2 != 0, JitterReports: f&4 != 0, TTLorHopLimit: rtcp.TTLorHopLimitType(f >> 3), SSRC: r.U32()},
				&rtcp.VoIPMetricsReportBlock{SSRC: r.U32()}}})
		}
	})
	// (4) unknown kinds arriving from the wire: every block type 0, 8..255 with random type-specific octet and content
	c.Exhaustive("unknown block types 0, 8..255 arriving from the wire", 249)
	// a block of a fixed-layout kind (receiver reference time, statistics summary, VoIP metrics)
	// whose block length announces more words than the layout has: the block still ends where its
	// length says, whatever the extra words hold, and the blocks after it are found and decoded as
	// if it had its nominal size
	c.Section("oversized-fixed-blocks", c.N(30000, 1500000), func(cs *core.Case) {
		r := cs.R
		x := &rtcp.ExtendedReport{SenderSSRC: r.B32()}
		nb := 1 + r.Intn(4)
		for i := 0; i < nb; i++ {
			x.Reports = append(x.Reports, gen.XRBlock(r, gen.XRKind(r.Intn(int(gen.NumXRKinds))), false))
		}
		e, err := ref.Encode(x, ref.RFC)
		if err != nil {
			return
		}
		_, blocks, werr := ref.WalkXR(e.B)
		if werr != nil || len(blocks) != nb {
			return
		}
		// stretch every fixed-layout block, last first so that earlier offsets stay valid
		in := cloneBytes(e.B)
		stretched := 0
		for i := nb - 1; i >= 0; i-- {
			wb := blocks[i]
			if wb.BT != 4 && wb.BT != 6 && wb.BT != 7 || r.Chance(1, 4) {
				continue
			}
			extra := 1 + r.Intn(3)
			fill := r.Bytes(4 * extra)
			if r.Chance(1, 4) {
				for j := range fill {
					fill[j] = 0
				}
			}
			end := wb.Off + wb.Size
			in = append(in[:end:end], append(fill, in[end:]...)...)
			bl := wb.Size/4 - 1 + extra
			in[wb.Off+2], in[wb.Off+3] = byte(bl>>8), byte(bl)
			stretched++
		}
		if stretched == 0 {
			return
		}
		gen.FitLength(in)
		g, derr, pan := gUnmarshalOwn(gen.XR, cloneBytes(in))
		cs.Eval(1)
		cs.Distinct(core.Digest(in))
		cs.Count("oversized-fixed-blocks")
		if pan != "" {
			cs.Fail("panic/Unmarshal", core.W{"input_hex": mon.Hex(in, 300), "panic": pan})
			return
		}
		det := func() core.W {
			return core.W{"input_hex": mon.Hex(in, 300), "canonical_hex": mon.Hex(e.B, 300), "error": errStr(derr), "decoded": vdump(g), "expected_blocks": vdump(x.Reports)}
		}
		if !cs.Check(derr == nil, "oversized-fixed/rejected", det) {
			return
		}
		gx := g.(*rtcp.ExtendedReport)
		ok := len(gx.Reports) == nb
		for i := 0; ok && i < nb; i++ {
			ok = gen.XRKindOf(gx.Reports[i]) == gen.XRKindOf(x.Reports[i]) && mon.SemEqual(normBlock(gx.Reports[i]), normBlock(x.Reports[i]))
		}
		cs.Check(ok, "oversized-fixed/blocks", det)
	})
	// unknown blocks whose first word looks like an RTCP header (version bits 10 in the block type,
	// a packet type 200..207 as the type-specific octet, and a length that fits what remains):
	// inside an XR packet it is a block like any other, first, last or in the middle
	c.Exhaustive("unknown blocks with BT 0x80..0xBF x type-specific 200..207 x 3 positions", 64*8*3)
	c.Section("header-like-blocks", 64*8*3, func(cs *core.Case) {
		r := cs.R
		bt := uint8(0x80 + cs.Idx%64)
		ts := uint8(200 + cs.Idx/64%8)
		pos := int(cs.Idx / 512)
		for _, words := range []int{0, 1, 2, 5} {
			body := r.Bytes(4 * words)
			blk := append([]byte{bt, ts, byte(words >> 8), byte(words)}, body...)
			rrt := []byte{4, 0, 0, 2, 1, 2, 3, 4, 5, 6, 7, 8}
			in := []byte{0x80, 207, 0, 0, 9, 9, 9, 9}
			switch pos {
			case 0:
				in = append(in, blk...)
			case 1:
				in = append(append(in, rrt...), blk...)
			default:
				in = append(append(append(in, rrt...), blk...), rrt...)
			}
			gen.FitLength(in)
			g, err, pan := gUnmarshalOwn(gen.XR, cloneBytes(in))
			cs.Eval(1)
			if pan != "" {
				cs.Fail("panic/Unmarshal", core.W{"input_hex": mon.Hex(in, 200), "panic": pan})
				return
			}
			want := []int{1, 2, 3}[pos]
			ok := err == nil && len(g.(*rtcp.ExtendedReport).Reports) == want
			if ok {
				ub, isU := g.(*rtcp.ExtendedReport).Reports[[]int{0, 1, 1}[pos]].(*rtcp.UnknownReportBlock)
				ok = isU && uint8(ub.BlockType) == bt && uint8(ub.TypeSpecific) == ts && bytes.Equal(ub.Bytes, body)
			}
			if !cs.Check(ok, "unknown/header-like-block", func() core.W {
				return core.W{"input_hex": mon.Hex(in, 200), "block_type": bt, "type_specific": ts, "position": []string{"only", "last of two", "middle of three"}[pos], "error": errStr(err), "decoded": vdump(g)}
			}) {
				return
			}
		}
		cs.DistinctN(4)
	})
	c.Section("unknown-from-wire", 249*c.N(20, 400), func(cs *core.Case) {
		r := cs.R
		bt := uint8(cs.Idx % 249)
		if bt > 0 {
			bt += 7
		}
		words := r.Intn(12)
		body := r.Bytes(4 * words)
		ts := r.U8()
		in := []byte{0x80, 207, 0, 0, 1, 2, 3, 4, bt, ts, byte(words >> 8), byte(words)}
		in = append(in, body...)
		// optionally a known block after it, to check that the unknown one is skipped by its length
		if r.Bool() {
			in = append(in, 4, 0, 0, 2, 1, 2, 3, 4, 5, 6, 7, 8)
		}
		gen.FitLength(in)
		g, err, pan := gUnmarshalOwn(gen.XR, cloneBytes(in))
		cs.Eval(1)
		cs.Distinct(core.Digest(in))
		if pan != "" {
			cs.Fail("panic/Unmarshal", core.W{"input_hex": mon.Hex(in, 200), "panic": pan})
			return
		}
		det := func() core.W { return core.W{"input_hex": mon.Hex(in, 200), "error": errStr(err), "decoded": vdump(g)} }
		if !cs.Check(err == nil, "unknown/rejected", det) {
			return
		}
		gx := g.(*rtcp.ExtendedReport)
		ub, ok := gx.Reports[0].(*rtcp.UnknownReportBlock)
		if !cs.Check(ok && uint8(ub.BlockType) == bt && uint8(ub.TypeSpecific) == ts && bytes.Equal(ub.Bytes, body), "unknown/fields", det) {
			return
		}
		out, merr, mpan := gMarshal(gx)
		cs.Eval(1)
		if mpan != "" {
			cs.Fail("panic/Marshal", core.W{"input_hex": mon.Hex(in, 200), "panic": mpan})
			return
		}
		cs.Check(merr == nil && bytes.Equal(out, in), "unknown/verbatim", func() core.W {
			return core.W{"input_hex": mon.Hex(in, 200), "reencoded_hex": mon.Hex(out, 200), "error": errStr(merr)}
		})
	})
	c.KnownWitness("KF5", func() (bool, string) {
		x := &rtcp.ExtendedReport{Reports: []rtcp.ReportBlock{&rtcp.LossRLEReportBlock{Chunks: []rtcp.Chunk{1}}, &rtcp.ReceiverReferenceTimeReportBlock{}}}
		b, _ := x.Marshal()
		_, _, err := ref.WalkXR(b)
		return err != nil || len(b)%4 != 0, fmt.Sprintf("XR with an odd-chunk-count RLE block: %d octets, independent walk: %v", len(b), err)
	})
}
