package props

import (
	"bytes"
	"fmt"
	"os"
	"os/exec"
	"reflect"
	"runtime"
	"sort"
	"sync"
	"time"

	"github.com/pion/rtcp"

	"verifharness/internal/core"
	"verifharness/internal/gen"
	"verifharness/internal/mon"
	"verifharness/internal/ref"
)

func init() {
	core.Register(&core.PropDef{
		ID:         "C18",
		Run:        runC18,
		RunRace:    runC18Race,
		RaceShards: 8,
		RaceProcs:  4,
		Technique:  "purity snapshots and random call histories against per-(packet, operation) baselines; Go race detector over shared-object workloads with an unsynchronised monitor",
		Rule: "(1) purity: each of Marshal, MarshalSize, DestinationSSRC, String, Header and Unmarshal on packets of all 16 types in three flavours (built in memory; obtained from the own decoder, aliasing an input buffer that is a prefix of a larger caller-owned array; built with spare capacity and sentinels in every slice), with snapshots of the packet, the input buffer, the whole caller-owned array and a digest of every slice up to its capacity before and after; " +
			"(2) histories: random call histories (length <= 60, repetitions, interleaved over up to 4 packets, decoding again into a reset variable) with every result compared with the baseline of that (packet, operation); baselines obtained in the long-lived worker compared with the same calls made first thing in a fresh child process; " +
			"(3) concurrency: G in {2,8,16,64} goroutines x GOMAXPROCS in {1,2,4,16} running PRNG-determined mixes of read-only operations on shared packets, Unmarshal of shared buffers into private packets and any operation on private clones, under the race detector, results compared with the sequential baselines; " +
			"non-trivial = an operation whose result was compared with a baseline; distinct by digest of (operation, object, history position) resp. of the object set of a concurrent run",
		Assumptions: []string{
			"ExtendedReport.Marshal fills its blocks' XRHeader (documented): it is excluded from the read-only operations on shared packets and its purity is judged modulo XRHeader",
			"the race detector observes only the accesses the workload executes and keeps a bounded shadow history; interleavings are sampled, never enumerated",
			"during the concurrent phase the monitor performs no synchronisation (no atomics, locks or channels) between the start barrier and WaitGroup.Wait, so it cannot hide a race by adding happens-before edges",
		},
		MinDistinctQuick: 100000, MinDistinctThorough: 5000000,
	})
}

type opKind int

const (
	opMarshal opKind = iota
	opMarshalSize
	opDest
	opString
	opHeader
	opUnmarshal      // decode the object's buffer into a fresh value
	opUnmarshalReuse // decode into a reset, previously used variable (private objects only)
	numOps
)

var opNames = [...]string{"Marshal", "MarshalSize", "DestinationSSRC", "String", "Header", "Unmarshal", "Unmarshal(reused variable)"}

type c18Obj struct {
	kind     gen.Kind
	flav     int
	p        rtcp.Packet
	backing  []byte // the caller-owned array of which buf is a prefix
	buf      []byte
	target   rtcp.Packet // reusable decode target (private objects)
	preFault string      // set when preparing the object already showed a purity violation
	base     [numOps]uint64
	valid    [numOps]bool
}

func resetPacket(p rtcp.Packet) {
	v := reflect.ValueOf(p).Elem()
	v.Set(reflect.Zero(v.Type()))
}

// doOp executes one operation and returns a digest of its complete result.
func doOp(op opKind, o *c18Obj) (d uint64, pan string) {
	panicked, val, stack := core.Guard(func() {
		switch op {
		case opMarshal:
			b, err := o.p.Marshal()
			d = core.Digest([]byte("M"), b, []byte(errStr(err)))
		case opMarshalSize:
			n := o.p.MarshalSize()
			d = core.DigestStr("S", fmt.Sprint(n))
		case opDest:
			d = core.DigestStr("D", fmt.Sprint(o.p.DestinationSSRC()))
		case opString:
			if s, ok := o.p.(fmt.Stringer); ok {
				d = core.DigestStr("T", s.String())
			}
		case opHeader:
			if h, ok := o.p.(headerer); ok {
				d = core.DigestStr("H", fmt.Sprintf("%+v", h.Header()))
			}
		case opUnmarshal:
			f := gen.New(o.kind)
			err := f.Unmarshal(o.buf)
			d = core.DigestStr("U", mon.Dump(f), errStr(err))
		case opUnmarshalReuse:
			resetPacket(o.target)
			err := o.target.Unmarshal(o.buf)
			d = core.DigestStr("U", mon.Dump(o.target), errStr(err))
		}
	})
	if panicked {
		return 0, fmt.Sprintf("%v\n%s", val, stack)
	}
	return d, ""
}

func opApplies(op opKind, o *c18Obj) bool {
	switch op {
	case opString:
		_, ok := o.p.(fmt.Stringer)
		return ok
	case opHeader:
		_, ok := o.p.(headerer)
		return ok
	}
	return true
}

// object flavours: how the packet value was obtained
const (
	flavGenerated = iota // built in memory by the generator; every slice has cap == len
	flavDecoded          // obtained from the type's own decoder: its slices alias the input buffer, which has spare capacity
	flavSlack            // built in memory, every slice with spare capacity (sentinels beyond len)
)

var flavNames = [...]string{"generated", "decoded", "with-slack"}

// newObj builds an object: a packet, its input buffer (a prefix of a larger backing array),
// baselines computed on pristine clones.
func newObj(r *core.Rand, k gen.Kind, mutateBuf bool) *c18Obj {
	return newObjFlav(r, k, mutateBuf, r.Pick(flavGenerated, flavGenerated, flavDecoded, flavSlack))
}

// degenerate returns a value of kind k with empty lists / zero fields: purity and freedom from
// races must not depend on the value being well-formed (an empty NACK still marshals).
func degenerate(r *core.Rand, k gen.Kind) rtcp.Packet {
	p := gen.New(k)
	switch v := p.(type) {
	case *rtcp.TransportLayerNack:
		v.SenderSSRC, v.MediaSSRC = r.U32(), r.U32()
	case *rtcp.SliceLossIndication:
		v.SenderSSRC, v.MediaSSRC = r.U32(), r.U32()
	case *rtcp.FullIntraRequest:
		v.SenderSSRC, v.MediaSSRC = r.U32(), r.U32()
	case *rtcp.TransportLayerCC:
		v.SenderSSRC, v.MediaSSRC = r.U32(), r.U32()
		v.Header = rtcp.Header{Count: 15, Type: 205, Length: uint16(r.Pick(2, 4, 0))}
	case *rtcp.SourceDescription:
		if r.Bool() {
			v.Chunks = []rtcp.SourceDescriptionChunk{{Source: r.U32()}}
		}
	case *rtcp.ExtendedReport:
		v.SenderSSRC = r.U32()
		if r.Bool() {
			v.Reports = []rtcp.ReportBlock{&rtcp.DLRRReportBlock{}, &rtcp.LossRLEReportBlock{}, &rtcp.UnknownReportBlock{}}
		}
	case *rtcp.CCFeedbackReport:
		if r.Bool() {
			v.ReportBlocks = []rtcp.CCFeedbackReportBlock{{MediaSSRC: r.U32()}}
		}
	case *rtcp.RawPacket:
		if r.Bool() {
			*v = rtcp.RawPacket{0x80, byte(r.Pick(199, 208)), 0, 0}
		}
	}
	return p
}

// withNilElement puts a nil into one list of interfaces or pointers (a report block, a status
// chunk, a delta, a compound member). Most operations panic on such a value in the unchanged
// library and are then not judged; one that does return must still leave the value alone.
func withNilElement(r *core.Rand, p rtcp.Packet) {
	switch v := p.(type) {
	case *rtcp.ExtendedReport:
		i := r.Intn(len(v.Reports) + 1)
		v.Reports = append(v.Reports[:i:i], append([]rtcp.ReportBlock{nil}, v.Reports[i:]...)...)
	case *rtcp.TransportLayerCC:
		if len(v.RecvDeltas) > 0 && r.Bool() {
			v.RecvDeltas[r.Intn(len(v.RecvDeltas))] = nil
		} else if len(v.PacketChunks) > 0 {
			v.PacketChunks[r.Intn(len(v.PacketChunks))] = nil
		}
	case *rtcp.CompoundPacket:
		if len(*v) > 0 {
			i := 1 + r.Intn(len(*v))
			*v = append((*v)[:i:i], append([]rtcp.Packet{nil}, (*v)[i:]...)...)
		}
	}
}

func newObjFlav(r *core.Rand, k gen.Kind, mutateBuf bool, flav int) *c18Obj {
	p := gen.Packet(r, k, gen.Opts{Small: r.Chance(3, 4), NoBig: true, AllowKF: r.Chance(1, 6)})
	if flav == flavGenerated && r.Chance(1, 6) {
		p = degenerate(r, k)
	}
	if flav == flavGenerated && r.Chance(1, 10) {
		withNilElement(r, p)
	}
	o := &c18Obj{kind: k, p: p, flav: flav}
	var enc []byte
	if b, err, pan := gMarshal(clonePacket(p)); err == nil && pan == "" {
		enc = b
	} else if e, rerr := ref.Encode(p, ref.Lib); rerr == nil {
		enc = e.B
	} else {
		enc = []byte{0x80, 200, 0, 0}
	}
	if r.Chance(1, 3) {
		if e, rerr := ref.Encode(p, ref.Lib); rerr == nil {
			enc = e.B // reference encoding: unspecified padding octets are zero, not the count
		}
	}
	if mutateBuf {
		enc = gen.Mutate(r, enc)
	}
	// the input buffer is a prefix of a larger array owned by the caller
	o.backing = append(append(make([]byte, 0, len(enc)+24), enc...), r.Bytes(24)...)
	o.buf = o.backing[:len(enc):len(o.backing)]
	switch flav {
	case flavDecoded:
		d := gen.New(k)
		var derr error
		if pan, _, _ := core.Guard(func() { derr = d.Unmarshal(o.buf) }); !pan && derr == nil {
			o.p = d
		} else {
			o.flav = flavGenerated
		}
	case flavSlack:
		o.p = mon.AddSlack(p, 1+r.Intn(8), r.U64).(rtcp.Packet)
	}
	if containsXR(o.p) {
		// fill the XR block headers once, before baselines are taken and the object is shared; this
		// first Marshal, too, may change nothing but those header fields
		before := xrModuloHeader(o.p)
		if pan, _, _ := core.Guard(func() { _, _ = o.p.Marshal() }); !pan {
			if after := xrModuloHeader(o.p); !mon.SemEqual(before, after) || mon.Dump(before) != mon.Dump(after) {
				o.preFault = "first Marshal of the value changed more than the XR block headers: before " + vdump(before) + " after " + vdump(after)
			}
		}
	}
	o.target = gen.New(k)
	for op := opKind(0); op < numOps; op++ {
		if !opApplies(op, o) {
			continue
		}
		pristine := &c18Obj{kind: k, p: clonePacket(o.p), buf: cloneBytes(o.buf), target: gen.New(k)}
		d, pan := doOp(op, pristine)
		if pan != "" {
			continue // a panicking operation is C01/C09/C17's business; not used as baseline
		}
		o.base[op], o.valid[op] = d, true
	}
	o.base[opUnmarshalReuse], o.valid[opUnmarshalReuse] = o.base[opUnmarshal], o.valid[opUnmarshal]
	return o
}

// xrModuloHeader clears every XRHeader (ExtendedReport.Marshal may rewrite them).
func xrModuloHeader(p rtcp.Packet) rtcp.Packet {
	q := clonePacket(p)
	var fix func(rtcp.Packet)
	fix = func(p rtcp.Packet) {
		switch v := p.(type) {
		case *rtcp.ExtendedReport:
			for _, b := range v.Reports {
				if b == nil {
					continue
				}
				f := reflect.ValueOf(b).Elem().FieldByName("XRHeader")
				if f.IsValid() && f.CanSet() {
					if _, unknown := b.(*rtcp.UnknownReportBlock); unknown {
						f.FieldByName("BlockLength").SetUint(0)
					} else {
						f.Set(reflect.Zero(f.Type()))
					}
				}
			}
		case *rtcp.CompoundPacket:
			for _, m := range *v {
				fix(m)
			}
		}
	}
	fix(q)
	return q
}

func containsXR(p rtcp.Packet) bool {
	return gen.Contains(p, func(q rtcp.Packet) bool { _, ok := q.(*rtcp.ExtendedReport); return ok })
}

// c18Purity runs one operation with snapshots around it.
func c18Purity(cs *core.Case, o *c18Obj, op opKind, where string) {
	if o.preFault != "" {
		cs.Fail("packet-modified/Marshal", core.W{"type": o.kind.String(), "where": "first Marshal while preparing the object", "detail": o.preFault})
		o.preFault = ""
	}
	if !opApplies(op, o) || !o.valid[op] {
		return
	}
	snapP := clonePacket(o.p)
	snapB := cloneBytes(o.buf)
	snapBacking := cloneBytes(o.backing)
	capBefore := mon.DigestCap(o.p)
	d, pan := doOp(op, o)
	cs.Eval(1)
	det := func(extra core.W) core.W {
		w := core.W{"operation": opNames[op], "type": o.kind.String(), "packet_before": vdump(snapP), "input_hex": mon.Hex(snapB, 200), "where": where}
		for k, v := range extra {
			w[k] = v
		}
		return w
	}
	if pan != "" {
		cs.Fail("panic/"+opNames[op], det(core.W{"panic": pan}))
		return
	}
	cs.Distinct(core.DigestStr(opNames[op], fmt.Sprint(d), where))
	cs.Count("op/" + opNames[op])
	a, b := rtcp.Packet(o.p), rtcp.Packet(snapP)
	if op == opMarshal && containsXR(o.p) {
		a, b = xrModuloHeader(o.p), xrModuloHeader(snapP)
	}
	if !mon.SemEqual(a, b) {
		cs.Fail("packet-modified/"+opNames[op], det(core.W{"packet_after": vdump(o.p)}))
		o.p = snapP
	}
	if !bytes.Equal(o.buf, snapB) {
		cs.Fail("input-modified/"+opNames[op], det(core.W{"input_after_hex": mon.Hex(o.buf, 200)}))
		copy(o.buf, snapB)
	}
	if !bytes.Equal(o.backing, snapBacking) {
		cs.Fail("caller-memory-modified/"+opNames[op], det(core.W{"flavour": flavNames[o.flav], "note": "octets of the caller's array outside the input slice (or aliased by the decoded packet) changed",
			"backing_before_hex": mon.Hex(snapBacking, 300), "backing_after_hex": mon.Hex(o.backing, 300)}))
		copy(o.backing, snapBacking)
	}
	if op != opUnmarshalReuse && mon.DigestCap(o.p) != capBefore {
		cs.Fail("spare-capacity-written/"+opNames[op], det(core.W{"flavour": flavNames[o.flav], "note": "elements between len and cap of a slice reachable from the packet changed (append into an aliased slice)"}))
		o.p = snapP
	}
	cs.Count("flavour/" + flavNames[o.flav])
	if d != o.base[op] {
		cs.Fail("result-differs/"+opNames[op], det(core.W{"note": "result differs from the baseline obtained on a pristine clone"}))
	}
}

func c18Sequential(c *core.Ctx) {
	c.Section("purity", c.N(120000, 6000000), func(cs *core.Case) {
		r := cs.R
		k := gen.Kind(cs.Idx % uint64(gen.NumKinds))
		o := newObj(r, k, r.Chance(1, 3))
		for op := opKind(0); op < numOps; op++ {
			c18Purity(cs, o, op, "purity")
			c18Purity(cs, o, op, "purity-repeat")
		}
		if cs.Idx < 32 {
			cs.Sample("purity/"+k.String(), func() any {
				return map[string]any{"packet": vdump(o.p), "input_hex": mon.Hex(o.buf, 48), "operations": opNames[:]}
			})
		}
	})
	c.Section("list-purity", c.N(20000, 1000000), c18ListPurity)
	// a result the caller kept (a by-value copy of the decoded packet, the slice returned by
	// DestinationSSRC) must not change when the same variable is decoded into again
	c.Section("retained-results", c.N(60000, 3000000), func(cs *core.Case) {
		r := cs.R
		k := gen.Kind(cs.Idx % uint64(gen.NumKinds))
		enc := func() []byte {
			v := gen.Packet(r, k, gen.Opts{Small: true, NoBig: true, AllowKF: r.Chance(1, 3)})
			if e, err := ref.Encode(v, ref.Lib); err == nil {
				return e.B
			}
			return nil
		}
		a, b := enc(), enc()
		if a == nil || b == nil {
			return
		}
		v := gen.New(k)
		var err error
		if pan, _, _ := core.Guard(func() { err = v.Unmarshal(cloneBytes(a)) }); pan || err != nil {
			return
		}
		snap := clonePacket(v)
		kept := reflect.New(reflect.TypeOf(v).Elem())
		kept.Elem().Set(reflect.ValueOf(v).Elem()) // what `first := *v` gives the caller
		var dest []uint32
		core.Guard(func() { dest = v.DestinationSSRC() })
		destSnap := append([]uint32(nil), dest...)
		var err2 error
		if pan, val, st := core.Guard(func() { err2 = v.Unmarshal(cloneBytes(b)) }); pan {
			cs.Fail("panic/Unmarshal", core.W{"type": k.String(), "first_hex": mon.Hex(a, 200), "second_hex": mon.Hex(b, 200), "panic": val, "stack": st})
			return
		}
		cs.Eval(3)
		cs.Count("retained/" + k.String())
		cs.Distinct(core.Digest([]byte("ret"), a, b))
		det := func() core.W {
			return core.W{"type": k.String(), "first_datagram_hex": mon.Hex(a, 200), "second_datagram_hex": mon.Hex(b, 200), "second_error": errStr(err2),
				"kept_copy_before": vdump(snap), "kept_copy_after": vdump(kept.Interface()), "destination_ssrc_before": destSnap, "destination_ssrc_after": dest}
		}
		cs.Check(mon.SemEqual(kept.Interface(), snap), "history/retained-packet-changed/"+k.String(), det)
		cs.Check(mon.SemEqual(dest, destSnap), "history/retained-destination-ssrc-changed/"+k.String(), det)
		// and what the second decode produced does not depend on what the variable held before
		if err2 == nil {
			fresh := gen.New(k)
			var ferr error
			if pan, _, _ := core.Guard(func() { ferr = fresh.Unmarshal(cloneBytes(b)) }); !pan && ferr == nil {
				cs.Eval(1)
				cs.Check(mon.SemEqual(v, fresh), "history/decode-depends-on-receiver/"+k.String(), func() core.W {
					return core.W{"type": k.String(), "receiver_held_decode_of_hex": mon.Hex(a, 200), "datagram_hex": mon.Hex(b, 200), "into_used_receiver": vdump(v), "into_fresh_receiver": vdump(fresh)}
				})
			}
		}
	})
	// what a call returned belongs to the caller: after the caller has overwritten every slice
	// element of a decoded packet (and of a Marshal result), the same calls on separately owned
	// inputs must still give what they gave the first time. A result that shares memory with a
	// package-level cache, a pooled buffer or another result does not survive this.
	c.Section("caller-owned-results", c.N(60000, 3000000), func(cs *core.Case) {
		r := cs.R
		k := gen.Kind(cs.Idx % uint64(gen.NumKinds))
		v := gen.Packet(r, k, gen.Opts{Small: true, NoBig: true, AllowKF: r.Chance(1, 4)})
		e, err := ref.Encode(v, ref.Lib)
		if err != nil {
			return
		}
		in := e.B
		dec := func() (rtcp.Packet, []rtcp.Packet, string) {
			own := gen.New(k)
			var oerr, uerr error
			var ps []rtcp.Packet
			if pan, val, st := core.Guard(func() {
				oerr = own.Unmarshal(cloneBytes(in))
				ps, uerr = rtcp.Unmarshal(cloneBytes(in))
			}); pan {
				return nil, nil, fmt.Sprintf("%v\n%s", val, st)
			}
			if oerr != nil {
				own = nil
			}
			if uerr != nil {
				ps = nil
			}
			return own, ps, ""
		}
		own1, ps1, pan := dec()
		if pan != "" || (own1 == nil && ps1 == nil) {
			return
		}
		wantOwn, wantPs := mon.Dump(own1), mon.Dump(ps1)
		// the elements of a decoded list are objects of their own (an edit of one is not an edit of
		// another)
		for _, res := range []any{own1, ps1} {
			if what, shared := mon.SharedElems(res); shared {
				cs.Fail("history/decoded-positions-share-an-object/"+k.String(), core.W{"type": k.String(), "datagram_hex": mon.Hex(in, 200), "what": what})
				return
			}
		}
		// the spare capacity of a decoded list (not of octet slices, which alias the datagram)
		// belongs to that list alone: writing into it, as an append by the caller does, changes
		// nothing the caller can see
		spare := mon.ScribbleSpare(own1)
		for _, p := range ps1 {
			spare += mon.ScribbleSpare(p)
		}
		if spare > 0 {
			cs.Count("spare-capacity-scalars-written/" + k.String())
			if a, b := mon.Dump(own1), mon.Dump(ps1); a != wantOwn || b != wantPs {
				cs.Fail("history/decoded-lists-share-spare-capacity/"+k.String(), core.W{"type": k.String(), "datagram_hex": mon.Hex(in, 200), "scalars_written_beyond_len": spare,
					"own_before": wantOwn, "own_after": a, "datagram_before": wantPs, "datagram_after": b})
				return
			}
		}
		var m1 []byte
		var merr error
		core.Guard(func() { m1, merr = v.Marshal() })
		wantM := append([]byte(nil), m1...)
		// the caller writes into everything it was given
		written := mon.Scribble(own1)
		for _, p := range ps1 {
			written += mon.Scribble(p)
		}
		if k == gen.Raw {
			merr = fmt.Errorf("not judged") // RawPacket.Marshal returns the packet's own octets: writing into them is writing into the packet
		} else {
			for i := range m1 {
				m1[i] = m1[i]*167 + 13
			}
		}
		own2, ps2, pan2 := dec()
		cs.Eval(4)
		cs.Count("caller-owned/" + k.String())
		cs.Distinct(core.Digest([]byte("own"), in))
		cs.Max("scalars_overwritten_per_case", float64(written+len(m1)), k.String())
		det := func(extra core.W) func() core.W {
			return func() core.W {
				d := core.W{"type": k.String(), "datagram_hex": mon.Hex(in, 200), "scalars_overwritten_in_first_results": written}
				for kk, vv := range extra {
					d[kk] = vv
				}
				return d
			}
		}
		if pan2 != "" {
			cs.Fail("panic/Unmarshal", det(core.W{"panic": pan2})())
			return
		}
		cs.Check(mon.Dump(own2) == wantOwn, "history/decode-after-caller-wrote-into-earlier-result/own/"+k.String(), det(core.W{"first": wantOwn, "second": mon.Dump(own2)}))
		cs.Check(mon.Dump(ps2) == wantPs, "history/decode-after-caller-wrote-into-earlier-result/datagram/"+k.String(), det(core.W{"first": wantPs, "second": mon.Dump(ps2)}))
		if merr == nil {
			var m2 []byte
			var merr2 error
			core.Guard(func() { m2, merr2 = v.Marshal() })
			cs.Check(merr2 == nil && bytes.Equal(m2, wantM), "history/marshal-after-caller-wrote-into-earlier-result/"+k.String(), det(core.W{"first_hex": mon.Hex(wantM, 200), "second_hex": mon.Hex(m2, 200), "error": errStr(merr2)}))
		}
	})
	// an error a decoder returned is a value too: its text may not change when the caller reuses
	// the buffer the failed decode was given
	c.Section("kept-errors", c.N(60000, 3000000), func(cs *core.Case) {
		r := cs.R
		k := gen.Kind(cs.Idx % uint64(gen.NumKinds))
		e, err := ref.Encode(gen.Packet(r, k, gen.Opts{Small: true, NoBig: true}), ref.Lib)
		if err != nil || len(e.B) < 4 {
			return
		}
		in := cloneBytes(e.B)
		switch r.Intn(6) {
		case 0:
			in[0] = in[0]&0x3F | byte(r.Pick(0, 1, 3))<<6 // version
		case 1:
			in[0] ^= 0x20 // padding bit
		case 2:
			in[0] = in[0]&0xE0 | byte(r.Intn(32)) // count / FMT
		case 3:
			in[1] = byte(r.Pick(199, 200, 201, 202, 203, 204, 205, 206, 207, 208, int(r.U8()))) // packet type
		case 4:
			in = in[:r.Intn(len(in))]
		default:
			in = gen.Mutate(r, in)
		}
		for _, via := range []string{"own", "datagram"} {
			buf := cloneBytes(in)
			var derr error
			if pan, _, _ := core.Guard(func() {
				if via == "own" {
					derr = gen.New(k).Unmarshal(buf)
				} else {
					_, derr = rtcp.Unmarshal(buf)
				}
			}); pan || derr == nil {
				continue
			}
			var before, after string
			core.Guard(func() { before = derr.Error() })
			for i := range buf {
				buf[i] = buf[i]*167 + 13
			}
			core.Guard(func() { after = derr.Error() })
			cs.Eval(1)
			cs.Count("kept-errors/" + via)
			cs.Distinct(core.Digest([]byte(via), in))
			cs.Check(before == after, "history/error-text-changed-when-input-buffer-was-overwritten/"+k.String(), func() core.W {
				return core.W{"type": k.String(), "via": via, "input_hex": mon.Hex(in, 200), "error_text_at_return": before, "error_text_after_the_buffer_was_reused": after}
			})
		}
	})
	c.Section("histories", c.N(40000, 2000000), func(cs *core.Case) {
		r := cs.R
		n := 1 + r.Intn(4)
		objs := make([]*c18Obj, n)
		pristine := make([]rtcp.Packet, n)
		for i := range objs {
			objs[i] = newObj(r, gen.Kind(r.Intn(int(gen.NumKinds))), r.Chance(1, 4))
			pristine[i] = clonePacket(objs[i].p)
		}
		hist := ""
		hl := 1 + r.Intn(60)
		for step := 0; step < hl; step++ {
			o := objs[r.Intn(n)]
			op := opKind(r.Intn(int(numOps)))
			if r.Chance(1, 4) && step > 0 {
				// repetition of the same operation on the same object
			}
			if !opApplies(op, o) || !o.valid[op] {
				continue
			}
			if step < 12 {
				hist += fmt.Sprintf("%s.%s ", o.kind, opNames[op])
			}
			d, pan := doOp(op, o)
			cs.Eval(1)
			if pan != "" {
				cs.Fail("panic/"+opNames[op], core.W{"history": hist, "step": step, "panic": pan})
				return
			}
			cs.Distinct(core.DigestStr("h", fmt.Sprint(d), fmt.Sprint(step)))
			if d != o.base[op] {
				cs.Fail("history/result-differs/"+opNames[op], core.W{"history_prefix": hist, "step": step, "operation": opNames[op], "type": o.kind.String(), "packet": vdump(o.p), "input_hex": mon.Hex(o.buf, 200)})
				return
			}
		}
		for i, o := range objs {
			a, b := rtcp.Packet(o.p), pristine[i]
			if containsXR(o.p) {
				a, b = xrModuloHeader(a), xrModuloHeader(b)
			}
			if !mon.SemEqual(a, b) {
				cs.Fail("history/packet-modified", core.W{"history_prefix": hist, "type": o.kind.String(), "before": vdump(pristine[i]), "after": vdump(o.p)})
			}
		}
		if cs.Idx < 8 {
			cs.Sample("history", func() any { return map[string]any{"first_steps": hist, "length": hl, "objects": n} })
		}
	})
}

// ---- list operations (rtcp.Marshal over decoded packets that alias one datagram) ----

type c18List struct {
	ps      []rtcp.Packet
	backing []byte // caller-owned array; the datagram is a prefix of it
	dgram   []byte
	perms   [][]int // index lists (sub-lists, reorderings, repetitions); -1 = a fresh PLI
	base    []uint64
	hasXR   bool
}

var c18PLI = &rtcp.PictureLossIndication{SenderSSRC: 0x01020304, MediaSSRC: 0x05060708}

func (l *c18List) build(k int) []rtcp.Packet {
	var out []rtcp.Packet
	for _, i := range l.perms[k] {
		if i < 0 {
			out = append(out, c18PLI)
		} else {
			out = append(out, l.ps[i])
		}
	}
	return out
}

func (l *c18List) op(k int) (d uint64, pan string) {
	panicked, v, st := core.Guard(func() {
		b, err := rtcp.Marshal(l.build(k))
		d = core.Digest([]byte("L"), b, []byte(errStr(err)))
	})
	if panicked {
		return 0, fmt.Sprintf("%v\n%s", v, st)
	}
	return d, ""
}

// newList decodes a datagram of several frames that lives in a larger array and prepares
// permutations with baselines taken on an independent pristine decode.
func newList(r *core.Rand) *c18List {
	var flat []byte
	n := 2 + r.Intn(4)
	for i := 0; i < n; i++ {
		f := corpusFrame(r)
		if f == nil || len(f) > 2000 {
			continue
		}
		flat = append(flat, f...)
	}
	mk := func() *c18List {
		l := &c18List{}
		l.backing = append(append(make([]byte, 0, len(flat)+40), flat...), bytes.Repeat([]byte{0xEE}, 40)...)
		l.dgram = l.backing[:len(flat):len(l.backing)]
		ps, err, pan := gUnmarshal(l.dgram)
		if err != nil || pan != "" {
			return nil
		}
		l.ps = ps
		for _, p := range ps {
			if containsXR(p) {
				l.hasXR = true
				core.Guard(func() { _, _ = p.Marshal() })
			}
		}
		return l
	}
	l := mk()
	if l == nil || len(l.ps) < 2 {
		return nil
	}
	m := len(l.ps)
	id := make([]int, m)
	rev := make([]int, m)
	for i := range id {
		id[i], rev[i] = i, m-1-i
	}
	l.perms = [][]int{id, rev, {0, -1, m - 1}, {m - 1, 0}, {0, 0, -1, 1}, append([]int{-1}, id...), {1, -1, 0, -1}}
	for extra := 0; extra < 3; extra++ {
		var p []int
		for j := 1 + r.Intn(5); j > 0; j-- {
			p = append(p, r.Intn(m+1)-1)
		}
		l.perms = append(l.perms, p)
	}
	// baselines on an independent decode of a copy, one fresh decode per permutation
	for k := range l.perms {
		pr := mk()
		if pr == nil {
			return nil
		}
		pr.perms = l.perms
		d, pan := pr.op(k)
		if pan != "" {
			return nil
		}
		l.base = append(l.base, d)
	}
	return l
}

func c18ListPurity(cs *core.Case) {
	l := newList(cs.R)
	if l == nil {
		return
	}
	snapBacking := cloneBytes(l.backing)
	snapPs := make([]rtcp.Packet, len(l.ps))
	for i, p := range l.ps {
		snapPs[i] = clonePacket(p)
	}
	for k := range l.perms {
		d, pan := l.op(k)
		cs.Eval(1)
		det := func(extra core.W) core.W {
			w := core.W{"datagram_hex": mon.Hex(snapBacking[:len(l.dgram)], 300), "list_indices(-1=fresh PLI)": l.perms[k], "decoded": vdump(snapPs)}
			for a, b := range extra {
				w[a] = b
			}
			return w
		}
		if pan != "" {
			cs.Fail("panic/rtcp.Marshal", det(core.W{"panic": pan}))
			return
		}
		cs.Count("list-op")
		cs.Distinct(core.DigestStr("list", fmt.Sprint(d), fmt.Sprint(k)))
		if d != l.base[k] {
			cs.Fail("list/result-differs", det(core.W{"note": "rtcp.Marshal of this list differs from the result on an independent pristine decode (earlier list operations changed something)"}))
			return
		}
		if !bytes.Equal(l.backing, snapBacking) {
			cs.Fail("list/caller-memory-modified", det(core.W{"backing_after_hex": mon.Hex(l.backing, 300)}))
			return
		}
		for i := range l.ps {
			a, b := rtcp.Packet(l.ps[i]), snapPs[i]
			if !mon.SemEqual(a, b) {
				cs.Fail("list/packet-modified", det(core.W{"index": i, "after": vdump(a)}))
				return
			}
		}
	}
}

// ---- concurrency ----

type c18Interval struct {
	obj    int32
	t0, t1 int64
}

type c18GLog struct {
	seen       [32][numOps]bool // (shared object, operation) pairs this goroutine executed
	ops        uint64
	mismatches []string
	panics     []string
	intervals  []c18Interval
}

type c18Config struct{ G, P int }

var c18Configs = []c18Config{{2, 1}, {2, 2}, {2, 4}, {2, 16}, {8, 1}, {8, 2}, {8, 4}, {8, 16}, {16, 1}, {16, 2}, {16, 4}, {16, 16}, {64, 1}, {64, 2}, {64, 4}, {64, 16}}

func c18Concurrent(cs *core.Case, cfg c18Config, opsPerG int) {
	r := cs.R
	// shared objects: every kind once, plus a few extra
	var shared []*c18Obj
	for k := gen.Kind(0); k < gen.NumKinds; k++ {
		shared = append(shared, newObj(r, k, false))
	}
	for i := 0; i < 8; i++ {
		shared = append(shared, newObj(r, gen.Kind(r.Intn(int(gen.NumKinds))), r.Bool()))
	}
	pristineP := make([]rtcp.Packet, len(shared))
	pristineB := make([][]byte, len(shared))
	pristineBacking := make([][]byte, len(shared))
	pristineCap := make([]uint64, len(shared))
	for i, o := range shared {
		pristineP[i], pristineB[i], pristineBacking[i], pristineCap[i] = clonePacket(o.p), cloneBytes(o.buf), cloneBytes(o.backing), mon.DigestCap(o.p)
	}
	// shared decoded lists (all members alias one datagram); lists containing an XR are left out
	// (ExtendedReport.Marshal writes its block headers)
	var lists []*c18List
	for tries := 0; len(lists) < 6 && tries < 40; tries++ {
		if l := newList(r); l != nil && !l.hasXR {
			lists = append(lists, l)
		}
	}
	listBacking := make([][]byte, len(lists))
	for i, l := range lists {
		listBacking[i] = cloneBytes(l.backing)
	}
	readOnly := []opKind{opMarshal, opMarshalSize, opDest, opString, opHeader}
	prev := runtime.GOMAXPROCS(cfg.P)
	defer runtime.GOMAXPROCS(prev)
	logs := make([]c18GLog, cfg.G)
	seeds := make([]uint64, cfg.G)
	for g := range seeds {
		seeds[g] = r.U64()
	}
	start := make(chan struct{})
	var wg sync.WaitGroup
	t00 := time.Now()
	for g := 0; g < cfg.G; g++ {
		wg.Add(1)
		go func(g int) {
			defer wg.Done()
			gr := core.NewRand(seeds[g])
			lg := &logs[g]
			lg.intervals = make([]c18Interval, 0, opsPerG)
			// private clones (deep) of a few shared objects: built before the barrier
			var private []*c18Obj
			for i := 0; i < 4; i++ {
				s := shared[gr.Intn(len(shared))]
				private = append(private, &c18Obj{kind: s.kind, p: clonePacket(pristineP[indexOf(shared, s)]), buf: cloneBytes(pristineB[indexOf(shared, s)]), target: gen.New(s.kind), base: s.base, valid: s.valid})
			}
			<-start
			// ---- no synchronisation from here to wg.Done ----
			for n := 0; n < opsPerG; n++ {
				var o *c18Obj
				var op opKind
				oi := int32(-1)
				if len(lists) > 0 && gr.Chance(1, 8) {
					// rtcp.Marshal over a shared decoded list
					l := lists[gr.Intn(len(lists))]
					k := gr.Intn(len(l.perms))
					d, pan := l.op(k)
					lg.ops++
					if pan != "" && len(lg.panics) < 3 {
						lg.panics = append(lg.panics, "rtcp.Marshal(list): "+pan)
					} else if d != l.base[k] && len(lg.mismatches) < 3 {
						lg.mismatches = append(lg.mismatches, fmt.Sprintf("rtcp.Marshal over a shared decoded list, indices %v (goroutine %d, op %d)", l.perms[k], g, n))
					}
					continue
				}
				switch gr.Intn(3) {
				case 0: // read-only operation on a shared packet
					i := gr.Intn(len(shared))
					o, oi = shared[i], int32(i)
					op = readOnly[gr.Intn(len(readOnly))]
					if op == opMarshal && containsXRFast(o) {
						op = opMarshalSize // ExtendedReport.Marshal is not read-only
					}
				case 1: // Unmarshal of a shared buffer into a private fresh packet
					i := gr.Intn(len(shared))
					o, oi = shared[i], int32(i)
					op = opUnmarshal
				default: // any operation on a private clone
					o = private[gr.Intn(len(private))]
					op = opKind(gr.Intn(int(numOps)))
				}
				if !opApplies(op, o) || !o.valid[op] {
					continue
				}
				t0 := int64(time.Since(t00))
				d, pan := doOp(op, o)
				t1 := int64(time.Since(t00))
				lg.ops++
				if oi >= 0 {
					lg.intervals = append(lg.intervals, c18Interval{oi, t0, t1})
					if oi < 32 {
						lg.seen[oi][op] = true
					}
				}
				if pan != "" {
					if len(lg.panics) < 3 {
						lg.panics = append(lg.panics, opNames[op]+" on "+o.kind.String()+": "+pan)
					}
					continue
				}
				if d != o.base[op] && len(lg.mismatches) < 3 {
					lg.mismatches = append(lg.mismatches, fmt.Sprintf("%s on %s %s (goroutine %d, op %d)", opNames[op], map[bool]string{true: "shared", false: "private"}[oi >= 0], o.kind, g, n))
				}
				if gr.Chance(1, 16) {
					runtime.Gosched()
				}
			}
		}(g)
	}
	close(start)
	wg.Wait()
	// ---- joined: merge the per-goroutine logs ----
	var ops uint64
	var all []c18Interval
	for g := range logs {
		ops += logs[g].ops
		all = append(all, logs[g].intervals...)
		for _, m := range logs[g].mismatches {
			cs.Fail("concurrent/result-differs", core.W{"config": fmt.Sprintf("G=%d GOMAXPROCS=%d", cfg.G, cfg.P), "what": m})
		}
		for _, p := range logs[g].panics {
			cs.Fail("panic/concurrent", core.W{"config": fmt.Sprintf("G=%d GOMAXPROCS=%d", cfg.G, cfg.P), "what": p})
		}
	}
	cs.Eval(ops)
	overlaps := countOverlaps(all)
	cs.CountN("concurrent-ops", ops)
	cs.CountN("concurrent-overlapping-pairs-on-same-shared-object", overlaps)
	cs.CountN(fmt.Sprintf("concurrent-ops/G=%d,P=%d", cfg.G, cfg.P), ops)
	cs.CountN(fmt.Sprintf("concurrent-overlaps/G=%d,P=%d", cfg.G, cfg.P), overlaps)
	cs.C.Res.ExtraInt["concurrent_ops"] += ops
	cs.C.Res.ExtraInt["overlapping_pairs_same_shared_object"] += overlaps
	cs.C.Res.ExtraInt["concurrent_runs"]++
	var setDigest []byte
	for i, o := range shared {
		setDigest = append(setDigest, o.buf...)
		a, b := rtcp.Packet(o.p), pristineP[i]
		if !mon.SemEqual(a, b) {
			cs.Fail("concurrent/shared-packet-modified", core.W{"type": o.kind.String(), "before": vdump(b), "after": vdump(a)})
		}
		if !bytes.Equal(o.buf, pristineB[i]) {
			cs.Fail("concurrent/shared-buffer-modified", core.W{"type": o.kind.String(), "before_hex": mon.Hex(pristineB[i], 200), "after_hex": mon.Hex(o.buf, 200)})
		}
		if !bytes.Equal(o.backing, pristineBacking[i]) || mon.DigestCap(o.p) != pristineCap[i] {
			cs.Fail("concurrent/caller-memory-modified", core.W{"type": o.kind.String(), "flavour": flavNames[o.flav], "backing_before_hex": mon.Hex(pristineBacking[i], 300), "backing_after_hex": mon.Hex(o.backing, 300)})
		}
		cs.Count("concurrent-shared-flavour/" + flavNames[o.flav])
	}
	for i, l := range lists {
		if !bytes.Equal(l.backing, listBacking[i]) {
			cs.Fail("concurrent/list-caller-memory-modified", core.W{"before_hex": mon.Hex(listBacking[i], 300), "after_hex": mon.Hex(l.backing, 300)})
		}
	}
	cs.Distinct(core.Digest(setDigest, []byte(fmt.Sprint(cfg))))
	// distinct (configuration, shared object, operation) triples that were actually executed concurrently
	for i := range shared {
		if i >= 32 {
			break
		}
		for op := opKind(0); op < numOps; op++ {
			for g := range logs {
				if logs[g].seen[i][op] {
					cs.Distinct(core.Digest([]byte(fmt.Sprint(cfg, op)), shared[i].buf, []byte(vdump(shared[i].p))))
					break
				}
			}
		}
	}
	cs.Sample(fmt.Sprintf("concurrent/G=%d,P=%d", cfg.G, cfg.P), func() any {
		return map[string]any{"goroutines": cfg.G, "gomaxprocs": cfg.P, "ops": ops, "overlapping_pairs_same_shared_object": overlaps, "shared_objects": len(shared), "wall_ms": time.Since(t00).Milliseconds()}
	})
}

func indexOf(s []*c18Obj, o *c18Obj) int {
	for i := range s {
		if s[i] == o {
			return i
		}
	}
	return 0
}

func containsXRFast(o *c18Obj) bool {
	return o.kind == gen.XR || (o.kind == gen.Compound && containsXR(o.p))
}

// countOverlaps counts pairs of operations on the same shared object whose [t0,t1] intervals
// (monotonic clock, merged after the join) intersect.
func countOverlaps(all []c18Interval) uint64 {
	sort.Slice(all, func(i, j int) bool {
		if all[i].obj != all[j].obj {
			return all[i].obj < all[j].obj
		}
		return all[i].t0 < all[j].t0
	})
	var n uint64
	var active []int64 // end times of intervals still open, same object
	cur := int32(-1)
	for _, iv := range all {
		if iv.obj != cur {
			cur, active = iv.obj, active[:0]
		}
		k := 0
		for _, e := range active {
			if e >= iv.t0 {
				active[k] = e
				k++
			}
		}
		active = active[:k]
		n += uint64(len(active))
		active = append(active, iv.t1)
	}
	return n
}

// c18FreshObjects builds the objects of one fresh-process case; the same code runs in the
// long-lived worker (after thousands of other calls) and in a fresh child process (as its very
// first library calls). Every baseline digest must be identical in both.
func c18FreshObjects(seed, idx uint64) []uint64 {
	r := core.CaseRand(seed, "C18", "fresh-process", idx)
	var out []uint64
	for i := 0; i < 3; i++ {
		k := gen.Kind(r.Intn(int(gen.NumKinds)))
		if i == 0 {
			k = gen.XR // the reflection-driven codec is the likeliest place for a type-keyed cache
		}
		o := newObjFlav(r, k, false, flavGenerated)
		out = append(out, core.Digest(o.buf))
		for op := opKind(0); op < numOps; op++ {
			if o.valid[op] {
				out = append(out, o.base[op])
			} else {
				out = append(out, 0)
			}
		}
	}
	return out
}

// C18FreshMain is the entry point of the fresh child process: prints the digests.
func C18FreshMain(args []string) int {
	var seed, idx uint64
	if len(args) != 2 {
		return 2
	}
	fmt.Sscan(args[0], &seed)
	fmt.Sscan(args[1], &idx)
	for _, d := range c18FreshObjects(seed, idx) {
		fmt.Printf("%x ", d)
	}
	fmt.Println()
	return 0
}

func c18FreshSection(c *core.Ctx, n uint64) {
	exe, err := os.Executable()
	if err != nil {
		c.Res.HarnessErrors = append(c.Res.HarnessErrors, "fresh-process: "+err.Error())
		return
	}
	c.Section("fresh-process", n, func(cs *core.Case) {
		here := c18FreshObjects(c.Seed, cs.Idx)
		out, err := exec.Command(exe, "c18fresh", fmt.Sprint(c.Seed), fmt.Sprint(cs.Idx)).Output()
		if err != nil {
			c.Res.HarnessErrors = append(c.Res.HarnessErrors, "fresh-process child failed: "+err.Error())
			return
		}
		var there []uint64
		for _, f := range bytes.Fields(out) {
			var d uint64
			fmt.Sscanf(string(f), "%x", &d)
			there = append(there, d)
		}
		cs.Eval(uint64(len(here)))
		cs.Count("fresh-process-comparisons")
		cs.Distinct(core.DigestStr("fresh", fmt.Sprint(here)))
		if len(here) != len(there) {
			c.Res.HarnessErrors = append(c.Res.HarnessErrors, fmt.Sprintf("fresh-process: %d vs %d digests", len(here), len(there)))
			return
		}
		for i := range here {
			if here[i] != there[i] {
				per := 1 + int(numOps)
				what := "input buffer (Marshal of the generated value)"
				if i%per > 0 {
					what = opNames[i%per-1]
				}
				cs.Fail("history/differs-from-fresh-process/"+what, core.W{"object": i / per, "operation": what,
					"note":        "the result obtained in this long-lived worker (after many unrelated calls) differs from the result of the same calls made first thing in a fresh process: the package keeps state across calls",
					"replay_hint": fmt.Sprintf("objects are regenerated from (seed %d, section fresh-process, index %d)", c.Seed, cs.Idx)})
				return
			}
		}
	})
}

func runC18(c *core.Ctx) {
	c18Sequential(c)
	c18FreshSection(c, c.N(2400, 60000))
	coldSection(c, c.N(100, 2000), nil)
	burstSection(c, c.N(480, 48000))
	collideSection(c)
	// the same concurrent workload without the race detector: results only, more volume
	reps := c.N(1, 12)
	c.Section("concurrent-plain", uint64(len(c18Configs))*reps, func(cs *core.Case) {
		c.WatchdogOff(true)
		defer c.WatchdogOff(false)
		cfg := c18Configs[cs.Idx%uint64(len(c18Configs))]
		c18Concurrent(cs, cfg, int(c.N(200000, 1500000))/cfg.G)
	})
}

func runC18Race(c *core.Ctx) {
	coldSection(c, c.N(100, 2000), nil)
	burstSection(c, c.N(240, 9600))
	reps := c.N(1, 3)
	c.Section("concurrent-race", uint64(len(c18Configs))*reps, func(cs *core.Case) {
		c.WatchdogOff(true)
		defer c.WatchdogOff(false)
		cfg := c18Configs[cs.Idx%uint64(len(c18Configs))]
		c18Concurrent(cs, cfg, int(c.N(200000, 1000000))/cfg.G)
	})
	// purity and histories once more under checkptr / race instrumentation (small)
	c.Section("purity", c.N(4000, 100000), func(cs *core.Case) {
		r := cs.R
		o := newObj(r, gen.Kind(cs.Idx%uint64(gen.NumKinds)), r.Chance(1, 3))
		for op := opKind(0); op < numOps; op++ {
			c18Purity(cs, o, op, "purity-race-build")
		}
	})
}
