package props

import (
	"bytes"
	"fmt"
	"math"

	"github.com/pion/rtcp"

	"verifharness/internal/core"
	"verifharness/internal/gen"
	"verifharness/internal/mon"
	"verifharness/internal/ref"
)

func init() {
	core.Register(&core.PropDef{
		ID:        "C08",
		Run:       runC08,
		Technique: "runtime limit-table monitor: every wire limit probed at limit-1, limit, limit+1 and far beyond, in random surroundings and list positions; accepted output checked for faithfulness against the reference encoding",
		Rule: "a table of every wire limit named in the statement (report/chunk/source counts, Header.Count, APP subtype, TWCC header count, SDES text, BYE reason, cumulative lost, REMB SSRC count, CCFB metric blocks per block, APP name length, REMB bitrate sign, TWCC small/large delta ranges, SDES item type 0; and the capacity of a TWCC status vector chunk, whose overflow the library refuses) x 4 levels x random surrounding values and positions; " +
			"over the limit => error and no octets; at/under => nil error and octets identical to the independent reference encoding of the value (so every count/length/bounded field represents the content); " +
			"non-trivial = every probe; distinct by digest of (cell, level, value)",
		Assumptions: []string{
			"limits not named in the statement (253-entry NACK/SLI cap, total size beyond the 16-bit length) are not claimed",
			"TWCC deltas are probed in exact multiples of 250 microseconds (the documented quantisation)",
			"faithfulness is judged against the reference encoder in the library's two pinned dialect points (SLI PT, CCFB num_reports = n-1)",
		},
		MinDistinctQuick: 20000, MinDistinctThorough: 400000,
	})
}

type c08Probe struct {
	over bool
	// exactly one of pkt / raw is used
	pkt     rtcp.Packet
	marshal func() ([]byte, error)
	want    []byte // expected octets for at/under probes of sub-structures
	value   any
}

type c08Cell struct {
	name string
	// level: 0 limit-1, 1 limit, 2 limit+1, 3 far beyond
	build func(r *core.Rand, level int) c08Probe
}

func lvl(level int, under, at, over, far int) (int, bool) {
	switch level {
	case 0:
		return under, false
	case 1:
		return at, false
	case 2:
		return over, true
	}
	return far, true
}

func c08Cells() []c08Cell {
	reportsN := func(r *core.Rand, n int) []rtcp.ReceptionReport {
		out := make([]rtcp.ReceptionReport, n)
		for i := range out {
			out[i] = gen.Report(r)
		}
		return out
	}
	pkt := func(p rtcp.Packet, over bool) c08Probe { return c08Probe{over: over, pkt: p, value: p} }
	text := func(r *core.Rand, n int) string { return gen.TextN(r, n) }
	cells := []c08Cell{
		{"SR.reports", func(r *core.Rand, l int) c08Probe {
			n, over := lvl(l, 30, 31, 32, 33+r.Intn(300))
			sr := &rtcp.SenderReport{SSRC: r.U32(), NTPTime: r.U64(), Reports: reportsN(r, n)}
			if r.Bool() {
				sr.ProfileExtensions = r.Bytes(r.Pick(1, 2, 3, 4, 5, 7, 8, 9, 64)) // also lengths that need padding
			}
			if len(sr.ProfileExtensions)%4 != 0 {
				// the reference encodes aligned extensions only; the library pads with zeros (repair F4)
				padded := *sr
				padded.ProfileExtensions = append(append([]byte(nil), sr.ProfileExtensions...), make([]byte, 4-len(sr.ProfileExtensions)%4)...)
				if e, err := ref.Encode(&padded, ref.Lib); err == nil {
					return c08Probe{over: over, marshal: sr.Marshal, want: e.B, value: sr}
				}
				sr.ProfileExtensions = padded.ProfileExtensions
			}
			return pkt(sr, over)
		}},
		{"RR.reports", func(r *core.Rand, l int) c08Probe {
			n, over := lvl(l, 30, 31, 32, 33+r.Intn(300))
			rr := &rtcp.ReceiverReport{SSRC: r.U32(), Reports: reportsN(r, n)}
			if r.Bool() {
				rr.ProfileExtensions = r.Bytes(r.Pick(1, 2, 3, 4, 5, 7, 8, 9, 64))
			}
			return pkt(rr, over)
		}},
		{"SDES.chunks", func(r *core.Rand, l int) c08Probe {
			n, over := lvl(l, 30, 31, 32, 33+r.Intn(300))
			s := &rtcp.SourceDescription{}
			for i := 0; i < n; i++ {
				s.Chunks = append(s.Chunks, rtcp.SourceDescriptionChunk{Source: r.U32(), Items: []rtcp.SourceDescriptionItem{{Type: rtcp.SDESCNAME, Text: text(r, r.Intn(6))}}})
			}
			return pkt(s, over)
		}},
		{"BYE.sources", func(r *core.Rand, l int) c08Probe {
			n, over := lvl(l, 30, 31, 32, 33+r.Intn(300))
			g := &rtcp.Goodbye{Reason: text(r, r.Intn(5))}
			for i := 0; i < n; i++ {
				g.Sources = append(g.Sources, r.U32())
			}
			return pkt(g, over)
		}},
		// several out-of-range values in one packet: a check that collects the offending bits of all
		// reports (sum, xor) instead of testing each one must still refuse
		{"RR.several-TotalLost", func(r *core.Rand, l int) c08Probe {
			rr := &rtcp.ReceiverReport{SSRC: r.U32(), Reports: reportsN(r, 2+r.Intn(6))}
			over := l >= 2
			for i := range rr.Reports {
				rr.Reports[i].TotalLost &= 0xFFFFFF
			}
			if over {
				tops := [][]uint32{{0x80, 0x80}, {0xFF, 0x01}, {0x40, 0x40, 0x40, 0x40}, {0x01, 0x01}, {0x55, 0xAA, 0x01}, {0x7F, 0x7F, 0x02}, {uint32(1 + r.Intn(255)), uint32(1 + r.Intn(255))}}[r.Intn(7)]
				if l == 3 {
					a := uint32(1 + r.Intn(255))
					tops = []uint32{a, 256 - a}
				}
				for i, t := range tops {
					if i < len(rr.Reports) {
						rr.Reports[len(rr.Reports)-1-i].TotalLost |= t << 24
					}
				}
			}
			return pkt(rr, over)
		}},
		{"SR.several-TotalLost", func(r *core.Rand, l int) c08Probe {
			sr := &rtcp.SenderReport{SSRC: r.U32(), NTPTime: r.U64(), Reports: reportsN(r, 2+r.Intn(6))}
			over := l >= 2
			for i := range sr.Reports {
				sr.Reports[i].TotalLost &= 0xFFFFFF
			}
			if over {
				a := uint32(1 + r.Intn(255))
				sr.Reports[0].TotalLost |= a << 24
				sr.Reports[len(sr.Reports)-1].TotalLost |= (256 - a) << 24
			}
			return pkt(sr, over)
		}},
		{"Header.Count", func(r *core.Rand, l int) c08Probe {
			n, over := lvl(l, 30, 31, 32, 33+r.Intn(223))
			h := rtcp.Header{Padding: r.Bool(), Count: uint8(n), Type: rtcp.PacketType(r.U8()), Length: r.U16()}
			want := []byte{0x80 | uint8(n)&0x1F, uint8(h.Type), byte(h.Length >> 8), byte(h.Length)}
			if h.Padding {
				want[0] |= 0x20
			}
			return c08Probe{over: over, marshal: h.Marshal, want: want, value: h}
		}},
		{"APP.subtype", func(r *core.Rand, l int) c08Probe {
			n, over := lvl(l, 30, 31, 32, 33+r.Intn(223))
			return pkt(&rtcp.ApplicationDefined{SubType: uint8(n), SSRC: r.U32(), Name: "name", Data: r.Bytes(r.Intn(9))}, over)
		}},
		{"TWCC.header.count", func(r *core.Rand, l int) c08Probe {
			n, over := lvl(l, 15, 15, 32, 33+r.Intn(223))
			t, _ := gen.TWCCValue(r, gen.Opts{Small: true})
			t.Header.Count = uint8(n)
			return pkt(t, over)
		}},
		{"SDES.text", func(r *core.Rand, l int) c08Probe {
			n, over := lvl(l, 254, 255, 256, 257+r.Intn(2000))
			s := gen.Packet(r, gen.SDES, gen.Opts{Small: true}).(*rtcp.SourceDescription)
			if len(s.Chunks) == 0 {
				s.Chunks = append(s.Chunks, rtcp.SourceDescriptionChunk{Source: r.U32()})
			}
			ci := r.Intn(len(s.Chunks))
			it := rtcp.SourceDescriptionItem{Type: rtcp.SDESType(1 + r.Intn(8)), Text: text(r, n)}
			items := s.Chunks[ci].Items
			pos := r.Intn(len(items) + 1)
			s.Chunks[ci].Items = append(items[:pos:pos], append([]rtcp.SourceDescriptionItem{it}, items[pos:]...)...)
			return pkt(s, over)
		}},
		{"SDESItem.text", func(r *core.Rand, l int) c08Probe {
			n, over := lvl(l, 254, 255, 256, 257+r.Intn(2000))
			it := rtcp.SourceDescriptionItem{Type: rtcp.SDESType(1 + r.Intn(255)), Text: text(r, n)}
			want := append([]byte{byte(it.Type), byte(n)}, it.Text...)
			return c08Probe{over: over, marshal: it.Marshal, want: want, value: it}
		}},
		{"SDESChunk.text", func(r *core.Rand, l int) c08Probe {
			n, over := lvl(l, 254, 255, 256, 257+r.Intn(2000))
			ch := rtcp.SourceDescriptionChunk{Source: r.U32(), Items: []rtcp.SourceDescriptionItem{{Type: 2, Text: "ab"}, {Type: rtcp.SDESType(1 + r.Intn(255)), Text: text(r, n)}}}
			var want []byte
			if !over {
				e, _ := ref.Encode(&rtcp.SourceDescription{Chunks: []rtcp.SourceDescriptionChunk{ch}}, ref.RFC)
				want = e.B[4:]
			}
			return c08Probe{over: over, marshal: ch.Marshal, want: want, value: ch}
		}},
		{"BYE.reason", func(r *core.Rand, l int) c08Probe {
			n, over := lvl(l, 254, 255, 256, 257+r.Intn(2000))
			g := gen.Packet(r, gen.BYE, gen.Opts{Small: true}).(*rtcp.Goodbye)
			g.Reason = text(r, n)
			return pkt(g, over)
		}},
		{"ReceptionReport.TotalLost", func(r *core.Rand, l int) c08Probe {
			tl := []uint32{1<<24 - 2, 1<<24 - 1, 1 << 24, uint32(r.Pick(1<<24+1, 1<<25-1, 1<<25, 1<<25+1, math.MaxUint32, int(1<<24+r.U32()%(1<<24))))}[l]
			rr := gen.Report(r)
			rr.TotalLost = tl
			want := make([]byte, 24)
			put32 := func(o int, v uint32) {
				want[o], want[o+1], want[o+2], want[o+3] = byte(v>>24), byte(v>>16), byte(v>>8), byte(v)
			}
			put32(0, rr.SSRC)
			put32(4, uint32(rr.FractionLost)<<24|tl&0xFFFFFF)
			put32(8, rr.LastSequenceNumber)
			put32(12, rr.Jitter)
			put32(16, rr.LastSenderReport)
			put32(20, rr.Delay)
			return c08Probe{over: l >= 2, marshal: rr.Marshal, want: want, value: rr}
		}},
		{"SR.TotalLost", func(r *core.Rand, l int) c08Probe {
			tl := []uint32{1<<24 - 2, 1<<24 - 1, 1 << 24, uint32(r.Pick(1<<24+1, 1<<25-1, 1<<25, math.MaxUint32))}[l]
			rs := reportsN(r, 1+r.Intn(5))
			rs[r.Intn(len(rs))].TotalLost = tl
			return pkt(&rtcp.SenderReport{SSRC: r.U32(), Reports: rs}, l >= 2)
		}},
		{"RR.TotalLost", func(r *core.Rand, l int) c08Probe {
			tl := []uint32{1<<24 - 2, 1<<24 - 1, 1 << 24, uint32(r.Pick(1<<24+1, 1<<25-1, 1<<25, math.MaxUint32))}[l]
			rs := reportsN(r, 1+r.Intn(5))
			rs[r.Intn(len(rs))].TotalLost = tl
			return pkt(&rtcp.ReceiverReport{SSRC: r.U32(), Reports: rs}, l >= 2)
		}},
		{"REMB.ssrcs", func(r *core.Rand, l int) c08Probe {
			n, over := lvl(l, 254, 255, 256, r.Pick(257, 300, 511, 512, 513, 1000))
			p := &rtcp.ReceiverEstimatedMaximumBitrate{SenderSSRC: r.U32(), Bitrate: gen.Bitrate(r, false)}
			for i := 0; i < n; i++ {
				p.SSRCs = append(p.SSRCs, r.U32())
			}
			return pkt(p, over)
		}},
		{"REMB.ssrcs/MarshalTo", func(r *core.Rand, l int) c08Probe {
			// the second public encoder entry point of REMB: same limit, caller-supplied buffer
			n, over := lvl(l, 254, 255, 256, r.Pick(257, 300, 511, 512, 513, 1000))
			p := &rtcp.ReceiverEstimatedMaximumBitrate{SenderSSRC: r.U32(), Bitrate: gen.Bitrate(r, false)}
			for i := 0; i < n; i++ {
				p.SSRCs = append(p.SSRCs, r.U32())
			}
			var want []byte
			if !over {
				e, _ := ref.Encode(p, ref.Lib)
				want = e.B
			}
			return c08Probe{over: over, marshal: func() ([]byte, error) {
				buf := make([]byte, 20+4*n+r.Intn(16))
				k, err := p.MarshalTo(buf)
				if err != nil {
					return nil, err
				}
				return buf[:k], nil
			}, want: want, value: p}
		}},
		{"CCFB.metric-blocks", func(r *core.Rand, l int) c08Probe {
			n, over := lvl(l, 16383, 16384, 16385, r.Pick(16386, 20000, 32768, 65535, 65536, 65537))
			p := &rtcp.CCFeedbackReport{SenderSSRC: r.U32(), ReportTimestamp: r.U32()}
			nb := 1 + r.Intn(3)
			big := r.Intn(nb)
			for i := 0; i < nb; i++ {
				m := 2 + r.Intn(4)
				if i == big {
					m = n
				}
				b := rtcp.CCFeedbackReportBlock{MediaSSRC: r.U32(), BeginSequence: uint16(r.Intn(1000)), MetricBlocks: make([]rtcp.CCFeedbackMetricBlock, m)}
				for j := 0; j < m; j += 1 + r.Intn(50) {
					b.MetricBlocks[j] = rtcp.CCFeedbackMetricBlock{Received: true, ECN: rtcp.ECN(r.Intn(4)), ArrivalTimeOffset: r.U16() & 0x1FFF}
				}
				p.ReportBlocks = append(p.ReportBlocks, b)
			}
			return pkt(p, over)
		}},
		{"APP.name-length", func(r *core.Rand, l int) c08Probe {
			n := []int{4, 4, r.Pick(0, 1, 2, 3, 5, 6, 7, 8), r.Pick(0, 9, 16, 255, 256)}[l]
			return pkt(&rtcp.ApplicationDefined{SubType: uint8(r.Intn(32)), SSRC: r.U32(), Name: text(r, n), Data: r.Bytes(r.Intn(9))}, n != 4)
		}},
		{"REMB.bitrate-sign", func(r *core.Rand, l int) c08Probe {
			br := []float32{0, float32(math.Copysign(0, -1)), -math.SmallestNonzeroFloat32, float32(r.Pick(-1, -1000000)) * float32(1+r.Intn(1000))}[l]
			if l == 3 && r.Bool() {
				br = -math.MaxFloat32
			}
			p := &rtcp.ReceiverEstimatedMaximumBitrate{SenderSSRC: r.U32(), Bitrate: br, SSRCs: []uint32{r.U32()}}
			return pkt(p, l >= 2)
		}},
		{"RecvDelta.small", func(r *core.Rand, l int) c08Probe {
			u := []int64{int64(r.Pick(0, 1, 254)), 255, int64(r.Pick(256, -1)), int64(r.Pick(257, 1000, -2, -32768, 32767, 1<<40, -(1 << 40), 1<<32, 1<<32+5, -(1 << 32), 1<<32+255, 1<<16, 1<<16+7, 1<<24+9, 1<<31, 1<<48+3, 1<<52))}[l]
			d := rtcp.RecvDelta{Type: 1, Delta: u * 250}
			return c08Probe{over: l >= 2, marshal: d.Marshal, want: []byte{byte(u)}, value: d}
		}},
		{"RecvDelta.large", func(r *core.Rand, l int) c08Probe {
			u := []int64{int64(r.Pick(-32767, 32766, 0, -1, 256)), int64(r.Pick(-32768, 32767)), int64(r.Pick(-32769, 32768)), int64(r.Pick(65535, 65536, -65536, 1<<40, -(1 << 40), 1<<32, 1<<32+5, -(1 << 32), 1<<32-32768, 1<<16+5, 1<<31, -(1 << 31), 1<<48+3, 1<<52))}[l]
			d := rtcp.RecvDelta{Type: 2, Delta: u * 250}
			return c08Probe{over: l >= 2, marshal: d.Marshal, want: []byte{byte(uint16(int16(u)) >> 8), byte(uint16(int16(u)))}, value: d}
		}},
		{"TWCC.delta-in-packet", func(r *core.Rand, l int) c08Probe {
			// a packet with several deltas, one of which is at / beyond its range
			m := gen.TWCCModelGen(r, gen.Opts{Small: true})
			for len(m.Deltas) == 0 {
				m = gen.TWCCModelGen(r, gen.Opts{Small: true})
			}
			t := m.Value(m.Chunks(r, gen.ChunkOpts{}))
			di := r.Intn(len(t.RecvDeltas))
			d := t.RecvDeltas[di]
			var u int64
			if d.Type == 1 {
				u = []int64{254, 255, int64(r.Pick(256, -1)), int64(r.Pick(1000, -1000, 70000))}[l]
			} else {
				u = []int64{int64(r.Pick(-32767, 32766)), int64(r.Pick(-32768, 32767)), int64(r.Pick(-32769, 32768)), int64(r.Pick(100000, -100000))}[l]
			}
			d.Delta = u * 250
			return pkt(t, l >= 2)
		}},
		// a status vector chunk holds 14 one-bit or 7 two-bit symbols: a longer list cannot be
		// represented, so success would mean that symbols were dropped
		{"StatusVectorChunk.symbols", func(r *core.Rand, l int) c08Probe {
			size := uint16(r.Intn(2))
			capn := 14 >> size
			n, over := lvl(l, capn-1, capn, capn+1, capn+2+r.Intn(40))
			ch := rtcp.StatusVectorChunk{Type: 1, SymbolSize: size, SymbolList: make([]uint16, n)}
			w := uint16(0x8000) | size<<14
			for i := range ch.SymbolList {
				ch.SymbolList[i] = uint16(r.Intn(2 << size))
				if size == 1 && ch.SymbolList[i] == 3 {
					ch.SymbolList[i] = 2
				}
				if i < capn {
					w |= ch.SymbolList[i] << (14 - (uint(i)+1)*(1+uint(size)))
				}
			}
			return c08Probe{over: over, marshal: ch.Marshal, want: []byte{byte(w >> 8), byte(w)}, value: ch}
		}},
		{"TWCC.vector-symbols-in-packet", func(r *core.Rand, l int) c08Probe {
			for {
				m := gen.TWCCModelGen(r, gen.Opts{Small: true})
				t := m.Value(m.Chunks(r, gen.ChunkOpts{}))
				var vs []*rtcp.StatusVectorChunk
				for _, c := range t.PacketChunks {
					if v, ok := c.(*rtcp.StatusVectorChunk); ok {
						vs = append(vs, v)
					}
				}
				if len(vs) == 0 {
					continue
				}
				v := vs[r.Intn(len(vs))]
				v.SymbolList = append([]uint16(nil), v.SymbolList...)
				switch l {
				case 0:
					if n := len(v.SymbolList); n > 0 && v.SymbolList[n-1] == 0 {
						v.SymbolList = v.SymbolList[:n-1] // the same statuses with a shorter list
					}
				case 2:
					v.SymbolList = append(v.SymbolList, uint16(r.Intn(2)))
				case 3:
					for i := 2 + r.Intn(30); i > 0; i-- {
						v.SymbolList = append(v.SymbolList, uint16(r.Intn(2)))
					}
				}
				return pkt(t, l >= 2)
			}
		}},
		{"SDES.item-type-0", func(r *core.Rand, l int) c08Probe {
			s := gen.Packet(r, gen.SDES, gen.Opts{Small: true}).(*rtcp.SourceDescription)
			if len(s.Chunks) == 0 {
				s.Chunks = append(s.Chunks, rtcp.SourceDescriptionChunk{Source: r.U32()})
			}
			ci := r.Intn(len(s.Chunks))
			ty := rtcp.SDESType([]int{1, 255, 0, 0}[l])
			it := rtcp.SourceDescriptionItem{Type: ty, Text: text(r, r.Intn(10))}
			items := s.Chunks[ci].Items
			pos := r.Intn(len(items) + 1)
			s.Chunks[ci].Items = append(items[:pos:pos], append([]rtcp.SourceDescriptionItem{it}, items[pos:]...)...)
			return pkt(s, l >= 2)
		}},
	}
	return cells
}

func runC08(c *core.Ctx) {
	cells := c08Cells()
	ncell := uint64(len(cells) * 4)
	c.Exhaustive("limit table: every (limit, level) cell", ncell)
	c.Section("table", ncell*c.N(4000, 400000), func(cs *core.Case) {
		cell := cells[(cs.Idx%ncell)/4]
		level := int(cs.Idx % 4)
		if cell.name == "CCFB.metric-blocks" && cs.Idx/ncell%20 != 0 {
			return // 32 KiB values: a twentieth of the repetitions
		}
		p := cell.build(cs.R, level)
		var b []byte
		var err error
		var pan string
		if p.pkt != nil {
			b, err, pan = gMarshal(p.pkt)
		} else {
			panicked, v, st := core.Guard(func() { b, err = p.marshal() })
			if panicked {
				pan = fmt.Sprintf("%v\n%s", v, st)
			}
		}
		cs.Eval(1)
		aspect := cell.name + "/" + []string{"under", "at", "over", "far-over"}[level]
		cs.Count(aspect)
		cs.Distinct(core.DigestStr(aspect, vdump(p.value)))
		cs.Sample(aspect, func() any { return map[string]any{"value": vdump(p.value), "error": errStr(err), "octets": len(b)} })
		det := func(extra core.W) func() core.W {
			return func() core.W {
				d := core.W{"cell": cell.name, "level": level, "value": vdump(p.value), "error": errStr(err), "marshal_hex": mon.Hex(b, 200), "len": len(b)}
				for k, v := range extra {
					d[k] = v
				}
				return d
			}
		}
		if pan != "" {
			cs.Fail("panic/Marshal", det(core.W{"panic": pan})())
			return
		}
		if p.over {
			cs.Check(err != nil && len(b) == 0, "silently-accepted/"+cell.name, det(nil))
			// and a refused value leaves nothing behind: the very next Marshal of a small valid value
			// of the same type (same goroutine, nothing in between) gives its reference octets
			if p.pkt != nil {
				k := gen.KindOf(p.pkt)
				sib := gen.Packet(cs.R, k, gen.Opts{Small: true, NoBig: true})
				if e, rerr := ref.Encode(sib, ref.Lib); rerr == nil {
					sb, serr, span := gMarshal(sib)
					cs.Eval(1)
					cs.Count("after-refusal/" + k.String())
					if span != "" {
						cs.Fail("panic/Marshal", core.W{"value": vdump(sib), "panic": span})
					} else if serr != nil || len(sb) != len(e.B) || firstDiff(sb, e.B, e.Mask) >= 0 {
						cs.Fail("after-refusal/"+cell.name, core.W{"refused_value": fmt.Sprintf("%.400s", vdump(p.value)), "refusal": errStr(err), "next_value": vdump(sib), "marshal_hex": mon.Hex(sb, 200), "reference_hex": mon.Hex(e.B, 200), "error": errStr(serr)})
					}
				}
			}
			return
		}
		if !cs.Check(err == nil, "rejected-at-limit/"+cell.name, det(nil)) {
			return
		}
		want, mask := p.want, []byte(nil)
		if p.pkt != nil {
			e, rerr := ref.Encode(p.pkt, ref.Lib)
			if rerr != nil {
				cs.C.Res.HarnessErrors = append(cs.C.Res.HarnessErrors, "reference cannot encode an at-limit value of "+cell.name+": "+rerr.Error())
				return
			}
			want, mask = e.B, e.Mask
		}
		if off := firstDiff(b, want, mask); off >= 0 {
			cs.Fail("unfaithful/"+cell.name, det(core.W{"reference_hex": mon.Hex(want, 200), "first_difference_at": off})())
		}
	})
	// regression witnesses of repaired defects, at fixed inputs
	c.Once("regression", func(cs *core.Case) {
		type w struct {
			name string
			f    func() ([]byte, error)
		}
		ssrcs256 := make([]uint32, 256)
		tw := &rtcp.TransportLayerCC{Header: rtcp.Header{Count: 15, Type: 205, Length: 5, Padding: true}, PacketStatusCount: 2,
			PacketChunks: []rtcp.PacketStatusChunk{&rtcp.RunLengthChunk{PacketStatusSymbol: 1, RunLength: 2}},
			RecvDeltas:   []*rtcp.RecvDelta{{Type: 1, Delta: 256 * 250}, {Type: 1, Delta: 250}}}
		for _, x := range []w{
			{"ReceptionReport.TotalLost=2^24", rtcp.ReceptionReport{TotalLost: 1 << 24}.Marshal},
			{"REMB with 256 SSRCs", rtcp.ReceiverEstimatedMaximumBitrate{SSRCs: ssrcs256}.Marshal},
			{"TWCC with an out-of-range small delta", tw.Marshal},
		} {
			var b []byte
			var err error
			pan, v, st := core.Guard(func() { b, err = x.f() })
			cs.Eval(1)
			if pan {
				cs.Fail("panic/Marshal", core.W{"what": x.name, "panic": v, "stack": st})
				continue
			}
			cs.Check(err != nil && len(b) == 0, "silently-accepted/regression", func() core.W {
				return core.W{"what": x.name, "error": errStr(err), "marshal_hex": mon.Hex(b, 64), "len": len(b)}
			})
		}
		_ = bytes.Equal
	})
}
