package props

import (
	"fmt"
	"github.com/pion/rtcp"

	"verifharness/internal/core"
	"verifharness/internal/gen"
	"verifharness/internal/mon"
)

func init() {
	core.Register(&core.PropDef{
		ID:        "C10",
		Run:       runC10,
		Technique: "runtime comparison of DestinationSSRC() with a reference list derived from the model value, in memory and after an encode/decode round trip",
		Rule: "values of all 16 types from D with list lengths biased to {0, 1, 2, limit} and a distinct SSRC per slot (slot index folded into the value, so a dropped, duplicated or reordered element is identifiable); " +
			"DestinationSSRC judged on the constructed value, on the own decoder's result and on the datagram decoder's result when the dynamic type survives; non-trivial = the expected list has at least one element; distinct by digest of (type, expected list, marshalled octets)",
		Assumptions: []string{
			"the expected lists follow the statement: report SSRCs (+ sender last for SR), SDES chunk sources, BYE sources, APP SSRC, media SSRC for NACK/PLI/RRR/SLI/TWCC, FIR entry SSRCs, REMB list, CCFB block SSRCs, XR sender then each block's sources (DLRR one per sub-block, RRT/unknown none), none for Raw, first member's for Compound",
			"nil and empty results are considered equal",
		},
		MinDistinctQuick: 20000, MinDistinctThorough: 500000,
	})
}

// tagSSRCs overwrites every SSRC slot with a distinct value and returns the reference
// DestinationSSRC list.
func tagSSRCs(r *core.Rand, p rtcp.Packet) []uint32 {
	base := r.U32() & 0xFFF00000
	slot := uint32(0)
	next := func() uint32 {
		slot++
		if r.Chance(1, 50) {
			return []uint32{0, 0xFFFFFFFF, 1}[r.Intn(3)] // extreme values now and then (not unique)
		}
		return base | slot
	}
	var want []uint32
	switch v := p.(type) {
	case *rtcp.SenderReport:
		v.SSRC = next()
		for i := range v.Reports {
			v.Reports[i].SSRC = next()
			want = append(want, v.Reports[i].SSRC)
		}
		want = append(want, v.SSRC)
	case *rtcp.ReceiverReport:
		v.SSRC = next()
		for i := range v.Reports {
			v.Reports[i].SSRC = next()
			want = append(want, v.Reports[i].SSRC)
		}
	case *rtcp.SourceDescription:
		for i := range v.Chunks {
			v.Chunks[i].Source = next()
			want = append(want, v.Chunks[i].Source)
		}
	case *rtcp.Goodbye:
		for i := range v.Sources {
			v.Sources[i] = next()
			want = append(want, v.Sources[i])
		}
	case *rtcp.ApplicationDefined:
		v.SSRC = next()
		want = []uint32{v.SSRC}
	case *rtcp.TransportLayerNack:
		v.SenderSSRC, v.MediaSSRC = next(), next()
		want = []uint32{v.MediaSSRC}
	case *rtcp.RapidResynchronizationRequest:
		v.SenderSSRC, v.MediaSSRC = next(), next()
		want = []uint32{v.MediaSSRC}
	case *rtcp.PictureLossIndication:
		v.SenderSSRC, v.MediaSSRC = next(), next()
		want = []uint32{v.MediaSSRC}
	case *rtcp.SliceLossIndication:
		v.SenderSSRC, v.MediaSSRC = next(), next()
		want = []uint32{v.MediaSSRC}
	case *rtcp.TransportLayerCC:
		v.SenderSSRC, v.MediaSSRC = next(), next()
		want = []uint32{v.MediaSSRC}
	case *rtcp.FullIntraRequest:
		v.SenderSSRC, v.MediaSSRC = next(), next()
		for i := range v.FIR {
			v.FIR[i].SSRC = next()
			want = append(want, v.FIR[i].SSRC)
		}
	case *rtcp.ReceiverEstimatedMaximumBitrate:
		v.SenderSSRC = next()
		for i := range v.SSRCs {
			v.SSRCs[i] = next()
			want = append(want, v.SSRCs[i])
		}
	case *rtcp.CCFeedbackReport:
		v.SenderSSRC = next()
		for i := range v.ReportBlocks {
			v.ReportBlocks[i].MediaSSRC = next()
			want = append(want, v.ReportBlocks[i].MediaSSRC)
		}
	case *rtcp.ExtendedReport:
		v.SenderSSRC = next()
		want = append(want, v.SenderSSRC)
		for _, b := range v.Reports {
			switch x := b.(type) {
			case *rtcp.LossRLEReportBlock:
				x.SSRC = next()
				want = append(want, x.SSRC)
			case *rtcp.DuplicateRLEReportBlock:
				x.SSRC = next()
				want = append(want, x.SSRC)
			case *rtcp.PacketReceiptTimesReportBlock:
				x.SSRC = next()
				want = append(want, x.SSRC)
			case *rtcp.StatisticsSummaryReportBlock:
				x.SSRC = next()
				want = append(want, x.SSRC)
			case *rtcp.VoIPMetricsReportBlock:
				x.SSRC = next()
				want = append(want, x.SSRC)
			case *rtcp.DLRRReportBlock:
				for i := range x.Reports {
					x.Reports[i].SSRC = next()
					want = append(want, x.Reports[i].SSRC)
				}
			}
		}
	case *rtcp.RawPacket:
		want = nil
	case *rtcp.CompoundPacket:
		for i, m := range *v {
			w := tagSSRCs(r, m)
			if i == 0 {
				want = w
			}
		}
	}
	return want
}

// refDest is the reference DestinationSSRC list read off the value as it is (no tagging: equal
// SSRCs in different slots stay equal).
func refDest(p rtcp.Packet) []uint32 {
	var want []uint32
	switch v := p.(type) {
	case *rtcp.SenderReport:
		for _, rr := range v.Reports {
			want = append(want, rr.SSRC)
		}
		want = append(want, v.SSRC)
	case *rtcp.ReceiverReport:
		for _, rr := range v.Reports {
			want = append(want, rr.SSRC)
		}
	case *rtcp.SourceDescription:
		for _, c := range v.Chunks {
			want = append(want, c.Source)
		}
	case *rtcp.Goodbye:
		want = append(want, v.Sources...)
	case *rtcp.ApplicationDefined:
		want = []uint32{v.SSRC}
	case *rtcp.TransportLayerNack:
		want = []uint32{v.MediaSSRC}
	case *rtcp.RapidResynchronizationRequest:
		want = []uint32{v.MediaSSRC}
	case *rtcp.PictureLossIndication:
		want = []uint32{v.MediaSSRC}
	case *rtcp.SliceLossIndication:
		want = []uint32{v.MediaSSRC}
	case *rtcp.TransportLayerCC:
		want = []uint32{v.MediaSSRC}
	case *rtcp.FullIntraRequest:
		for _, f := range v.FIR {
			want = append(want, f.SSRC)
		}
	case *rtcp.ReceiverEstimatedMaximumBitrate:
		want = append(want, v.SSRCs...)
	case *rtcp.CCFeedbackReport:
		for _, b := range v.ReportBlocks {
			want = append(want, b.MediaSSRC)
		}
	case *rtcp.ExtendedReport:
		want = append(want, v.SenderSSRC)
		for _, b := range v.Reports {
			switch x := b.(type) {
			case *rtcp.LossRLEReportBlock:
				want = append(want, x.SSRC)
			case *rtcp.DuplicateRLEReportBlock:
				want = append(want, x.SSRC)
			case *rtcp.PacketReceiptTimesReportBlock:
				want = append(want, x.SSRC)
			case *rtcp.StatisticsSummaryReportBlock:
				want = append(want, x.SSRC)
			case *rtcp.VoIPMetricsReportBlock:
				want = append(want, x.SSRC)
			case *rtcp.DLRRReportBlock:
				for _, d := range x.Reports {
					want = append(want, d.SSRC)
				}
			}
		}
	case *rtcp.CompoundPacket:
		if len(*v) > 0 {
			want = refDest((*v)[0])
		}
	}
	return want
}

func c10Call(cs *core.Case, p rtcp.Packet, want []uint32, aspect string, det func() core.W, kfs ...string) {
	var got []uint32
	panicked, val, stack := core.Guard(func() { got = p.DestinationSSRC() })
	cs.Eval(1)
	if panicked {
		d := det()
		d["panic"], d["stack"] = val, stack
		cs.Fail("panic/DestinationSSRC", d)
		return
	}
	if !mon.SemEqual(got, want) {
		d := det()
		d["got"], d["expected"] = got, want
		cs.Fail(aspect, d, kfs...)
	}
}

func runC10(c *core.Ctx) {
	c.Section("values", c.N(800000, 100000000), func(cs *core.Case) {
		r := cs.R
		// a deep copy: every SSRC slot gets its own tag below, so no object may sit at two positions
		p := clonePacket(valueOf(cs, gen.Opts{Small: r.Chance(1, 2), NoBig: true}))
		k := gen.KindOf(p)
		want := tagSSRCs(r, p)
		det := func() core.W { return core.W{"type": k.String(), "value": vdump(p)} }
		c10Call(cs, p, want, "memory/"+k.String(), det)
		b, err, pan := gMarshal(p)
		if err != nil || pan != "" {
			return
		}
		if len(want) > 0 {
			cs.Distinct(core.Digest([]byte(k.String()), b))
		}
		cs.Count("value/" + k.String())
		cs.Sample("value/"+k.String(), func() any { return map[string]any{"value": vdump(p), "expected_destination_ssrc": want} })
		if own, oerr, opan := gUnmarshalOwn(k, cloneBytes(b)); oerr == nil && opan == "" {
			c10Call(cs, own, want, "round-trip/own/"+k.String(), det)
		}
		if ps, uerr, upan := gUnmarshal(cloneBytes(b)); uerr == nil && upan == "" {
			if k == gen.Compound {
				cp := rtcp.CompoundPacket(ps)
				c10Call(cs, &cp, want, "round-trip/datagram/"+k.String(), det)
			} else if len(ps) == 1 && gen.KindOf(ps[0]) == k {
				c10Call(cs, ps[0], want, "round-trip/datagram/"+k.String(), det)
			}
		}
	})
	// values as generated, without a tag in every slot: SSRCs repeat (0, 1, all ones and magic words
	// are frequent), neighbouring entries may be equal, one object may sit at two positions
	c.Section("untagged", c.N(300000, 30000000), func(cs *core.Case) {
		p := valueOf(cs, gen.Opts{Small: cs.R.Chance(1, 2), NoBig: true})
		k := gen.KindOf(p)
		want := refDest(p)
		if len(want) > 0 {
			cs.Distinct(valueDigest("u", p))
		}
		cs.Count("untagged/" + k.String())
		c10Call(cs, p, want, "memory/"+k.String(), func() core.W { return core.W{"type": k.String(), "value": vdump(p)} })
	})
	// congestion-control feedback split over several blocks of one source, each continuing where the
	// previous one ends, with block sizes at and around the maximum: every block has its entry
	c.Section("ccfb-continuations", c.N(600, 20000), func(cs *core.Case) {
		r := cs.R
		v := &rtcp.CCFeedbackReport{SenderSSRC: r.B32(), ReportTimestamp: r.U32()}
		ssrc := r.B32()
		seq := r.B16()
		for i := 1 + r.Intn(4); i > 0; i-- {
			n := r.Pick(0, 1, 2, 3, 16382, 16383, 16384, 16384, 16384, r.Intn(40))
			if r.Chance(1, 5) {
				ssrc = r.B32()
			}
			begin := seq
			if r.Chance(1, 6) {
				begin += uint16(r.Pick(1, 65535, 16384))
			}
			v.ReportBlocks = append(v.ReportBlocks, rtcp.CCFeedbackReportBlock{MediaSSRC: ssrc, BeginSequence: begin, MetricBlocks: make([]rtcp.CCFeedbackMetricBlock, n)})
			seq = begin + uint16(n)
		}
		want := refDest(v)
		cs.Distinct(valueDigest("cc", want))
		cs.Count("ccfb-continuations")
		det := func() core.W {
			shape := ""
			for _, b := range v.ReportBlocks {
				shape += fmt.Sprintf("{ssrc %#x begin %d metrics %d} ", b.MediaSSRC, b.BeginSequence, len(b.MetricBlocks))
			}
			return core.W{"type": "CCFeedbackReport", "blocks": shape}
		}
		c10Call(cs, v, want, "memory/CCFeedbackReport", det)
		if b, err, pan := gMarshal(v); err == nil && pan == "" {
			if own, oerr, opan := gUnmarshalOwn(gen.CCFB, cloneBytes(b)); oerr == nil && opan == "" {
				// the library's num_reports dialect loses blocks with exactly one metric block (known
				// finding KF2, C02's business): the decoded packet is judged against its own blocks
				c10Call(cs, own, refDest(own), "round-trip/own/CCFeedbackReport", det)
			}
		}
	})
	// extended reports whose blocks continue each other for one source (same SSRC, same thinning,
	// the next block beginning where the previous one ends): every block has its entry
	c.Section("xr-continuations", c.N(3000, 200000), func(cs *core.Case) {
		r := cs.R
		x := &rtcp.ExtendedReport{SenderSSRC: r.B32()}
		ssrc, t, seq := r.B32(), uint8(r.Intn(16)), r.B16()
		for i := 2 + r.Intn(4); i > 0; i-- {
			if r.Chance(1, 6) {
				ssrc = r.B32()
			}
			if r.Chance(1, 8) {
				t = uint8(r.Intn(16))
			}
			n := uint16(1 + r.Intn(40))
			begin := seq
			if r.Chance(1, 8) {
				begin += uint16(r.Pick(1, 65535))
			}
			end := begin + n
			switch r.Intn(4) {
			case 0, 1:
				x.Reports = append(x.Reports, &rtcp.LossRLEReportBlock{T: t, SSRC: ssrc, BeginSeq: begin, EndSeq: end, Chunks: []rtcp.Chunk{rtcp.Chunk(0x4000 | n), 0}})
			case 2:
				x.Reports = append(x.Reports, &rtcp.DuplicateRLEReportBlock{T: t, SSRC: ssrc, BeginSeq: begin, EndSeq: end, Chunks: []rtcp.Chunk{rtcp.Chunk(n), 0}})
			default:
				x.Reports = append(x.Reports, &rtcp.PacketReceiptTimesReportBlock{T: t, SSRC: ssrc, BeginSeq: begin, EndSeq: end, ReceiptTime: make([]uint32, n)})
			}
			seq = end
		}
		want := refDest(x)
		cs.Distinct(valueDigest("xc", x))
		cs.Count("xr-continuations")
		det := func() core.W { return core.W{"type": "ExtendedReport", "value": vdump(x)} }
		c10Call(cs, x, want, "memory/ExtendedReport", det)
		if b, err, pan := gMarshal(x); err == nil && pan == "" {
			if own, oerr, opan := gUnmarshalOwn(gen.XR, cloneBytes(b)); oerr == nil && opan == "" {
				c10Call(cs, own, want, "round-trip/own/ExtendedReport", det)
			}
		}
	})
	// list-length boundaries per type, systematically
	c.Section("boundaries", c.N(6000, 120000), func(cs *core.Case) {
		r := cs.R
		n := []int{0, 1, 2, 31}[cs.Idx%4]
		mk := []func() rtcp.Packet{
			func() rtcp.Packet { return &rtcp.SenderReport{Reports: make([]rtcp.ReceptionReport, n)} },
			func() rtcp.Packet { return &rtcp.ReceiverReport{Reports: make([]rtcp.ReceptionReport, n)} },
			func() rtcp.Packet { return &rtcp.SourceDescription{Chunks: make([]rtcp.SourceDescriptionChunk, n)} },
			func() rtcp.Packet { return &rtcp.Goodbye{Sources: make([]uint32, n)} },
			func() rtcp.Packet { return &rtcp.FullIntraRequest{FIR: make([]rtcp.FIREntry, n*8)} },
			func() rtcp.Packet { return &rtcp.ReceiverEstimatedMaximumBitrate{SSRCs: make([]uint32, n*8)} },
			func() rtcp.Packet { return &rtcp.CCFeedbackReport{ReportBlocks: make([]rtcp.CCFeedbackReportBlock, n)} },
			func() rtcp.Packet {
				x := &rtcp.ExtendedReport{}
				for i := 0; i < n; i++ {
					x.Reports = append(x.Reports, gen.XRBlock(r, gen.XRKind(r.Intn(int(gen.NumXRKinds))), false))
				}
				return x
			},
			func() rtcp.Packet { return &rtcp.CompoundPacket{} },
		}
		for _, f := range mk {
			p := f()
			want := tagSSRCs(r, p)
			k := gen.KindOf(p)
			c10Call(cs, p, want, "memory/"+k.String(), func() core.W { return core.W{"type": k.String(), "value": vdump(p)} })
			cs.Distinct(valueDigest("b", p))
		}
	})
}
