package props

import (
	"bytes"

	"github.com/pion/rtcp"

	"verifharness/internal/core"
	"verifharness/internal/gen"
	"verifharness/internal/mon"
	"verifharness/internal/ref"
)

func init() {
	core.Register(&core.PropDef{
		ID:        "C09",
		Run:       runC09,
		Technique: "runtime decode -> encode -> decode -> encode fixpoint monitor on manufactured accepted datagrams",
		Rule: "datagrams of 1..8 frames manufactured to be accepted: reference encodings (both dialects), the library's own output, all REMB wire mantissa/exponent values, TWCC mutants, and acceptance-preserving mutations (payload octets/bits, surplus words inside the frame, padding shapes, boundary values in inner 16-bit fields, dropped tail words, nudged counts), plus hostile shapes near the 64 KiB / 256 KiB size limits; " +
			"judged when rtcp.Unmarshal accepts (no panic of any Marshal; re-accepted; equal to the list after its Marshal and, modulo XRHeader of known XR blocks, to the list as first decoded; byte fixpoint); non-trivial = accepted; distinct by digest of the accepted input octets",
		Assumptions: []string{
			"equality of the two decoded lists is taken after the first list has been marshalled (ExtendedReport.Marshal fills its blocks' headers, as documented)",
			"TransportLayerCC frames are judged only when the decoded header is consistent with the content (the statement's precondition); an inconsistent one still must not panic",
			"accepted inputs are reached by mutation of valid encodings, not by exhaustive search of byte strings",
		},
		FuzzTarget: "FuzzReencode", FuzzExecs: 6000000,
		MinDistinctQuick: 20000, MinDistinctThorough: 2000000,
	})
}

// c09Judge runs the fixpoint oracle on one input. Returns whether it was accepted.
func c09Judge(cs *core.Case, in []byte) bool {
	ps, err, pan := gUnmarshal(cloneBytes(in))
	cs.Eval(1)
	if pan != "" {
		cs.Fail("panic/rtcp.Unmarshal", core.W{"input_hex": mon.Hex(in, 400), "panic": pan})
		return false
	}
	if err != nil {
		cs.Count("rejected")
		return false
	}
	cs.Count("accepted")
	cs.Distinct(core.Digest(in))
	det := func(extra core.W) core.W {
		d := core.W{"input_hex": mon.Hex(in, 400), "input_len": len(in), "decoded": vdump(ps)}
		for k, v := range extra {
			d[k] = v
		}
		return d
	}
	precond := true
	kf3 := false
	original := make([]rtcp.Packet, len(ps)) // as decoded, before any Marshal (XR Marshal rewrites block headers)
	for i, p := range ps {
		original[i] = clonePacket(p)
	}
	var b2 []byte
	allOK := true
	for i, p := range ps {
		cs.Count("accepted-type/" + mon.TypeName(p))
		if t, ok := p.(*rtcp.TransportLayerCC); ok && !twccHeaderConsistent(t) {
			precond = false
		}
		if rp, ok := p.(*rtcp.ReceiverEstimatedMaximumBitrate); ok {
			_ = rp
		}
		mb, merr, mpan := gMarshal(p)
		cs.Eval(1)
		if mpan != "" {
			cs.Fail("panic/Marshal/"+mon.TypeName(p), det(core.W{"packet_index": i, "panic": mpan}))
			return true
		}
		if merr != nil {
			cs.Count("marshal-error/" + mon.TypeName(p))
			allOK = false
			continue
		}
		b2 = append(b2, mb...)
	}
	if !allOK || !precond {
		if !precond {
			cs.Count("twcc-header-inconsistent(not judged)")
		}
		return true
	}
	// KF3: a REMB frame whose wire mantissa is 0 decodes to 2^(exp+23); from exponent 58 on that is
	// above the largest encodable bitrate, so re-encoding saturates and the round trip is not stable
	// (below 58 the wrongly decoded value re-encodes exactly and nothing is tolerated)
	off := 0
	for off+4 <= len(in) {
		fl := 4 * (int(in[off+2])<<8 | int(in[off+3]) + 1)
		if in[off+1] == 206 && in[off]&0x1F == 15 && off+20 <= len(in) && in[off+17]&3 == 0 && in[off+18] == 0 && in[off+19] == 0 && in[off+17]>>2 >= 58 {
			kf3 = true
		}
		off += fl
	}
	var kfs []string
	if kf3 {
		kfs = append(kfs, "KF3")
	}
	ps2, err2, pan2 := gUnmarshal(cloneBytes(b2))
	cs.Eval(1)
	if pan2 != "" {
		cs.Fail("panic/rtcp.Unmarshal", det(core.W{"reencoded_hex": mon.Hex(b2, 400), "panic": pan2}))
		return true
	}
	if err2 != nil {
		cs.Fail("reaccepted", det(core.W{"reencoded_hex": mon.Hex(b2, 400), "error": errStr(err2)}), kfs...)
		return true
	}
	if !mon.SemEqual(normList(ps), normList(ps2)) {
		cs.Fail("equal", det(core.W{"reencoded_hex": mon.Hex(b2, 400), "decoded_again": vdump(ps2)}), kfs...)
		return true
	}
	// against the packets as first decoded, modulo the XRHeader convenience field of known XR
	// blocks (type and type-specific octet of unknown blocks do count)
	for i := range original {
		if !mon.SemEqual(normXR(original[i]), normXR(ps2[i])) {
			cs.Fail("equal/as-first-decoded", det(core.W{"index": i, "first_decoded": vdump(original[i]), "decoded_again": vdump(ps2[i]), "reencoded_hex": mon.Hex(b2, 400)}), kfs...)
			return true
		}
	}
	b3, err3, pan3 := gMarshalList(ps2)
	cs.Eval(1)
	if pan3 != "" {
		cs.Fail("panic/rtcp.Marshal", det(core.W{"panic": pan3}))
		return true
	}
	if err3 != nil || !bytes.Equal(b3, b2) {
		cs.Fail("fixpoint", det(core.W{"reencoded_hex": mon.Hex(b2, 400), "third_hex": mon.Hex(b3, 400), "error": errStr(err3)}), kfs...)
	}
	return true
}

func runC09(c *core.Ctx) {
	c.Section("corpus", c.N(700000, 60000000), func(cs *core.Case) {
		in := corpusDatagram(cs.R)
		if len(in) == 0 {
			return
		}
		if c09Judge(cs, in) {
			cs.Sample("accepted", func() any { return map[string]any{"input_hex": mon.Hex(in, 96), "len": len(in)} })
		}
	})
	// all 2^24 REMB wire pairs are covered in C14/C17; here: every exponent with mantissa 0 and 1
	c.Once("remb-mantissa-0", func(cs *core.Case) {
		for e := 0; e < 64; e++ {
			for _, m := range []uint32{0, 1, 0x3FFFF} {
				b := []byte{0x8F, 206, 0, 4, 0, 0, 0, 1, 0, 0, 0, 0, 'R', 'E', 'M', 'B', 0, byte(e<<2) | byte(m>>16), byte(m >> 8), byte(m)}
				c09Judge(cs, b)
			}
		}
	})
	// size-limit shapes: frames whose re-encoding must cope with sizes near 64 KiB / 256 KiB
	c.Section("size-limits", c.N(300, 6000), func(cs *core.Case) {
		r := cs.R
		switch cs.Idx % 6 {
		case 0: // CCFB above 65535 octets: two maximal blocks
			v := &rtcp.CCFeedbackReport{SenderSSRC: r.U32(), ReportTimestamp: r.U32()}
			for i := 0; i < 2+r.Intn(3); i++ {
				v.ReportBlocks = append(v.ReportBlocks, rtcp.CCFeedbackReportBlock{MediaSSRC: r.U32(), BeginSequence: uint16(r.Intn(40000)), MetricBlocks: make([]rtcp.CCFeedbackMetricBlock, 16384-r.Intn(3))})
			}
			if e, err := ref.Encode(v, ref.Lib); err == nil {
				c09Judge(cs, e.B)
			}
		case 1: // CCFB frame of exactly 262144 octets whose last block reads into the timestamp
			n := 262144 - 4*r.Intn(3)
			b := make([]byte, n)
			b[0], b[1] = 0x8B, 205
			gen.FitLength(b)
			off := 8
			for n-off >= 8+2*16384+8 {
				b[off+6], b[off+7] = 0x3F, 0xFF // 16384 reports
				off += 8 + 2*16384
			}
			rest := n - off // one last block covering everything incl. the timestamp octets
			k := (rest - 8) / 2
			if k >= 1 {
				b[off+6], b[off+7] = byte((k-1)>>8), byte(k-1)
			}
			c09Judge(cs, b)
		case 2: // XR frame of 262144 octets: unknown block, re-encoded size
			n := 262144 - 4*r.Intn(3)
			b := make([]byte, n)
			copy(b[8:], r.Bytes(64))
			b[0], b[1] = 0x80, 207
			gen.FitLength(b)
			b[8] = 99
			bl := (n-8)/4 - 1
			b[10], b[11] = byte(bl>>8), byte(bl)
			c09Judge(cs, b)
		case 3: // SDES frame of 262144 octets made of empty chunks cannot be re-encoded (count>31): must not panic
			n := 4 * (1 + r.Intn(65536))
			b := make([]byte, n)
			b[0], b[1] = 0x80|byte(r.Intn(32)), 202
			gen.FitLength(b)
			c09Judge(cs, b)
		case 4: // NACK / SLI / FIR frames with very long lists (Marshal refuses or copes)
			n := 4 * (3 + r.Intn(65533))
			if r.Bool() {
				// length fields at the multiples of 2^14 words (where 4*length wraps in 16 bits) and next to them
				n = 4 * (1 + r.Pick(16383, 16384, 16385, 16386, 16387, 32767, 32768, 32769, 32770, 49151, 49152, 49153, 49154, 65534, 65535))
			}
			b := make([]byte, n)
			copy(b[4:], r.Bytes(n-4))
			pc := [][2]byte{{205, 1}, {205, 2}, {206, 4}, {203, 31}, {204, 1}, {200, 31}, {201, 31}}[r.Intn(7)]
			b[0], b[1] = 0x80|pc[1], pc[0]
			gen.FitLength(b)
			c09Judge(cs, b)
		default: // TWCC near the 16-bit size
			m := gen.TWCCModelGen(r, gen.Opts{})
			for len(m.Status) < 30000 {
				m.Status = append(m.Status, uint8(r.Pick(1, 1, 2, 0)))
			}
			m.Deltas = nil
			for _, s := range m.Status {
				if s != 0 {
					m.Deltas = append(m.Deltas, int64(r.Intn(200)))
				}
			}
			if e, err := ref.Encode(m.Value(m.Chunks(r, gen.ChunkOpts{})), ref.RFC); err == nil {
				c09Judge(cs, e.B)
			}
		}
	})
	// reference encodings of values of 64 KiB and more of every family (where the re-encoder's 16-bit
	// size arithmetic is exercised), alone and followed by a small packet
	c.Section("big-encodings", c.N(240, 5000), func(cs *core.Case) {
		r := cs.R
		v := gen.BigPacket(r)
		e, err := ref.Encode(v, ref.Lib)
		if err != nil || len(e.B) > 262144 {
			return
		}
		in := e.B
		if r.Bool() {
			in = append(cloneBytes(in), 0x81, 203, 0, 1, 1, 2, 3, 4)
		}
		if c09Judge(cs, in) {
			cs.Count("big-encodings/" + gen.KindOf(v).String())
		}
	})
	c.KnownWitness("KF3", func() (bool, string) {
		b := []byte{0x8F, 206, 0, 4, 0, 0, 0, 1, 0, 0, 0, 0, 'R', 'E', 'M', 'B', 0, 60 << 2, 0, 0}
		ps, err := rtcp.Unmarshal(b)
		if err != nil {
			return false, "not accepted"
		}
		b2, _ := rtcp.Marshal(ps)
		ps2, err2 := rtcp.Unmarshal(b2)
		return err2 != nil || !mon.SemEqual(ps, ps2), "REMB exp 60 / mantissa 0 decodes to " + vdump(ps) + " and re-encodes to a different value " + vdump(ps2)
	})
}
