package props

import (
	"fmt"

	"github.com/pion/rtcp"

	"verifharness/internal/core"
	"verifharness/internal/gen"
	"verifharness/internal/mon"
	"verifharness/internal/ref"
)

func init() {
	core.Register(&core.PropDef{
		ID:        "C13",
		Run:       runC13,
		Technique: "runtime comparison of every accepted TWCC decode with an independent expansion of the raw octets; chunking invariance over reference encodings of random valid chunkings",
		Rule: "(a) status sequences of length 0..600 (a few up to 65535) over {not received, small, large} with K=6 random valid chunkings each (run-length, 1-bit, 2-bit vector mixes, final runs that overshoot), reference-encoded and decoded; " +
			"(b) mutants of such encodings (status count, chunk words, length field, delta octets, truncation, extension) and random bodies, judged when the library accepts them; " +
			"non-trivial = accepted by TransportLayerCC.Unmarshal with status count > 0; distinct by digest of the input octets",
		Assumptions: []string{
			"reading of the statement: run lengths are clipped to the status count; every received symbol of a status vector chunk has a delta (also symbols beyond the count); the invariance half uses chunkings whose unused trailing symbols are zero, where both readings coincide",
			"declared length = 4*(length field+1) computed without 16-bit wrap",
		},
		FuzzTarget: "FuzzTWCC", FuzzExecs: 6000000,
		MinDistinctQuick: 50000, MinDistinctThorough: 2000000,
	})
}

// twccProjection is the chunking-independent content of a decoded packet.
type twccProjection struct {
	Sender, Media uint32
	Base, Count   uint16
	RefTime       uint32
	Fb            uint8
	Status        []uint8
	Deltas        []ref.TWCCDelta
}

// projectTWCC expands the library's decoded chunk list (clipped to the status count) and
// pairs the deltas of the first Count statuses.
func projectTWCC(t *rtcp.TransportLayerCC) (*twccProjection, error) {
	p := &twccProjection{Sender: t.SenderSSRC, Media: t.MediaSSRC, Base: t.BaseSequenceNumber, Count: t.PacketStatusCount, RefTime: t.ReferenceTime, Fb: t.FbPktCount}
	var all []uint8
	for _, ch := range t.PacketChunks {
		switch c := ch.(type) {
		case *rtcp.RunLengthChunk:
			n := int(c.RunLength)
			if rem := int(t.PacketStatusCount) - len(all); n > rem {
				n = rem
			}
			for i := 0; i < n; i++ {
				all = append(all, uint8(c.PacketStatusSymbol))
			}
		case *rtcp.StatusVectorChunk:
			for _, s := range c.SymbolList {
				all = append(all, uint8(s))
			}
		default:
			return nil, fmt.Errorf("unexpected chunk type %T", ch)
		}
	}
	if len(all) < int(t.PacketStatusCount) {
		return nil, fmt.Errorf("chunks cover %d statuses, count is %d", len(all), t.PacketStatusCount)
	}
	di := 0
	for i, s := range all {
		if s == 1 || s == 2 {
			if di >= len(t.RecvDeltas) || t.RecvDeltas[di] == nil {
				return nil, fmt.Errorf("delta %d missing", di)
			}
			if i < int(t.PacketStatusCount) {
				d := t.RecvDeltas[di]
				if d.Delta%250 != 0 {
					return nil, fmt.Errorf("delta %d = %d is not a multiple of 250", di, d.Delta)
				}
				p.Deltas = append(p.Deltas, ref.TWCCDelta{Sym: uint8(d.Type), Units: d.Delta / 250})
			}
			di++
		}
	}
	p.Status = all[:t.PacketStatusCount]
	return p, nil
}

func modelProjection(m *gen.TWCCModel) *twccProjection {
	p := &twccProjection{Sender: m.Sender, Media: m.Media, Base: m.Base, Count: uint16(len(m.Status)), RefTime: m.RefTime, Fb: m.FbCount, Status: m.Status}
	di := 0
	for _, s := range m.Status {
		if s != 0 {
			p.Deltas = append(p.Deltas, ref.TWCCDelta{Sym: s, Units: m.Deltas[di]})
			di++
		}
	}
	return p
}

// c13Walk judges one accepted decode against the independent walk of the raw octets.
func c13Walk(cs *core.Case, in []byte, t *rtcp.TransportLayerCC, via string) {
	det := func(extra core.W) func() core.W {
		return func() core.W {
			d := core.W{"input_hex": mon.Hex(in, 256), "decoded": vdump(t), "via": via}
			for k, v := range extra {
				d[k] = v
			}
			return d
		}
	}
	w, err := ref.WalkTWCC(in)
	// the statement leaves open whether the unused trailing symbols of a vector chunk that
	// overshoots the status count have deltas; the library says yes. Both readings are accepted:
	// the decode is judged against the walk whose delta count it matches.
	if wc, cerr := ref.WalkTWCCClipped(in); cerr == nil && (err != nil || (len(t.RecvDeltas) == len(wc.Deltas) && len(t.RecvDeltas) != len(w.Deltas))) {
		w, err = wc, nil
		cs.Count("walk-reading/clipped-vectors")
	}
	if err != nil {
		cs.Fail("bounds/walk", det(core.W{"walker": err.Error()})())
		return
	}
	if w.Count > 0 {
		cs.Distinct(core.Digest(in))
	}
	hdrOK := t.Header.Padding == w.Padding && t.Header.Count == 15 && t.Header.Type == 205 && t.Header.Length == w.LengthField
	cs.Check(hdrOK, "fields/header", det(nil))
	cs.Check(t.SenderSSRC == w.Sender && t.MediaSSRC == w.Media && t.BaseSequenceNumber == w.Base && t.PacketStatusCount == w.Count &&
		t.ReferenceTime == w.RefTime && t.FbPktCount == w.FbCount, "fields/fixed", det(nil))
	// (a) chunk list
	ok := len(t.PacketChunks) == len(w.ChunkWords)
	if ok {
		for i, ch := range t.PacketChunks {
			word, err := ref.TWCCChunkWord(ch)
			if err != nil || word != w.ChunkWords[i] {
				// a 2-bit/1-bit vector always re-packs exactly; a run-length too
				ok = false
				break
			}
		}
	}
	if !cs.Check(ok, "chunks", det(core.W{"walk_chunk_words": fmt.Sprintf("%04x", w.ChunkWords)})) {
		return
	}
	// (b),(c) deltas one-to-one with received symbols, size class and value
	if !cs.Check(len(t.RecvDeltas) == len(w.Deltas), "deltas/count", det(core.W{"walk_deltas": len(w.Deltas), "decoded_deltas": len(t.RecvDeltas)})) {
		return
	}
	for i, d := range t.RecvDeltas {
		if d == nil {
			cs.Fail("deltas/nil", det(core.W{"index": i})())
			return
		}
		if uint8(d.Type) != w.Deltas[i].Sym {
			cs.Fail("deltas/size-class", det(core.W{"index": i, "walk": w.Deltas[i]})())
			return
		}
		if d.Delta != 250*w.Deltas[i].Units {
			cs.Fail("deltas/value", det(core.W{"index": i, "walk_units": w.Deltas[i].Units, "decoded": d.Delta})())
			return
		}
	}
	// (d) bounds
	cs.Check(w.Cursor <= w.Declared && w.Cursor <= len(in), "bounds/cursor", det(core.W{"cursor": w.Cursor, "declared": w.Declared}))
}

// twccMutate derives a (possibly accepted) mutant of a TWCC encoding.
func twccMutate(r *core.Rand, b []byte) []byte {
	m := cloneBytes(b)
	setLen := func() {
		if len(m)%4 == 0 && len(m) >= 4 {
			w := len(m)/4 - 1
			m[2], m[3] = byte(w>>8), byte(w)
		}
	}
	for n := 1 + r.Intn(3); n > 0; n-- {
		switch r.Intn(10) {
		case 0: // status count
			if len(m) >= 16 {
				c := r.Pick(0, 1, 2, 7, 8, 13, 14, 15, 28, 100, 600, int(r.U16()%700))
				if r.Chance(1, 40) {
					c = r.Pick(8191, 8192, 65535, 65534, 65522, 65521)
				}
				m[14], m[15] = byte(c>>8), byte(c)
			}
		case 1: // a chunk word
			if len(m) >= 22 {
				o := 20 + 2*r.Intn((len(m)-20)/2)
				v := r.U16()
				switch r.Intn(4) {
				case 0:
					v &= 0x7FFF
				case 1:
					v = 0x8000 | v&0x3FFF
				case 2:
					v |= 0xC000
				}
				m[o], m[o+1] = byte(v>>8), byte(v)
			}
		case 2: // random octet
			if len(m) > 20 {
				m[20+r.Intn(len(m)-20)] = r.U8()
			}
		case 3: // truncate by words and fix the length
			if len(m) > 24 {
				m = m[:len(m)-4*(1+r.Intn((len(m)-20)/4))]
				setLen()
			}
		case 4: // extend and fix the length
			m = append(m, r.Bytes(4*(1+r.Intn(4)))...)
			setLen()
		case 5: // length field alone
			if len(m) >= 4 {
				w := r.Pick(0, 3, 4, 5, len(m)/4-2, len(m)/4-1, len(m)/4, 0x3FFF, 0x4004, 0xFFFF)
				if w < 0 {
					w = 0
				}
				m[2], m[3] = byte(w>>8), byte(w)
			}
		case 6: // padding bit
			m[0] ^= 0x20
		case 7: // append surplus octets without touching the length (own decoder ignores them)
			m = append(m, r.Bytes(1+r.Intn(7))...)
		case 8: // fixed header fields
			if len(m) >= 20 {
				copy(m[4:14], r.Bytes(10))
				copy(m[16:20], r.Bytes(4))
			}
		default: // bit flip anywhere after the common header
			if len(m) > 4 {
				m[4+r.Intn(len(m)-4)] ^= 1 << uint(r.Intn(8))
			}
		}
	}
	return m
}

func runC13(c *core.Ctx) {
	// (1) chunking invariance
	c.Section("invariance", c.N(60000, 9000000), func(cs *core.Case) {
		r := cs.R
		m := gen.TWCCModelGen(r, gen.Opts{})
		want := modelProjection(m)
		for k := 0; k < 6; k++ {
			chunks := m.Chunks(r, gen.ChunkOpts{OvershootRun: true, ZeroRuns: r.Chance(1, 3)})
			v := m.Value(chunks)
			e, err := ref.Encode(v, ref.RFC)
			if err != nil {
				cs.C.Res.HarnessErrors = append(cs.C.Res.HarnessErrors, "reference cannot encode a generated TWCC value: "+err.Error()+" "+vdump(v))
				return
			}
			got, derr, pan := gUnmarshalOwn(gen.TWCC, cloneBytes(e.B))
			cs.Eval(1)
			det := func(extra core.W) core.W {
				d := core.W{"model_status": fmt.Sprint(m.Status), "model_deltas": fmt.Sprint(m.Deltas), "chunking": vdump(chunks), "input_hex": mon.Hex(e.B, 256)}
				for kk, vv := range extra {
					d[kk] = vv
				}
				return d
			}
			if pan != "" {
				cs.Fail("panic/Unmarshal", det(core.W{"panic": pan}))
				return
			}
			if derr != nil {
				cs.Fail("invariance/rejected", det(core.W{"error": errStr(derr)}))
				continue
			}
			t := got.(*rtcp.TransportLayerCC)
			proj, perr := projectTWCC(t)
			if perr != nil {
				cs.Fail("invariance/inconsistent", det(core.W{"problem": perr.Error(), "decoded": vdump(t)}))
				continue
			}
			if !mon.SemEqual(proj, want) {
				cs.Fail("invariance/differs", det(core.W{"decoded_projection": vdump(proj), "expected": vdump(want)}))
				continue
			}
			c13Walk(cs, e.B, t, "own")
			if k == 0 {
				cs.Sample("chunking", func() any {
					return map[string]any{"status": fmt.Sprint(m.Status), "deltas_units": fmt.Sprint(m.Deltas), "chunk_words": vdump(chunks), "input_hex": mon.Hex(e.B, 96)}
				})
				// the datagram path must agree
				ps, uerr, upan := gUnmarshal(cloneBytes(e.B))
				cs.Eval(1)
				if upan != "" {
					cs.Fail("panic/rtcp.Unmarshal", det(core.W{"panic": upan}))
				} else if uerr != nil || len(ps) != 1 || !mon.SemEqual(ps[0], got) {
					cs.Fail("invariance/datagram-differs", det(core.W{"error": errStr(uerr), "datagram": vdump(ps)}))
				}
			}
			// the decoded feedback belongs to the caller: after it has written into every chunk and
			// delta it was given, decoding the same octets again (and the next chunkings of the same
			// status sequence) must still give the model
			written := mon.Scribble(t)
			again, aerr, apan := gUnmarshalOwn(gen.TWCC, cloneBytes(e.B))
			cs.Eval(1)
			if apan != "" {
				cs.Fail("panic/Unmarshal", det(core.W{"panic": apan}))
				return
			}
			var aproj any
			var aperr error
			if aerr == nil {
				aproj, aperr = projectTWCC(again.(*rtcp.TransportLayerCC))
			}
			if aerr != nil || aperr != nil || !mon.SemEqual(aproj, want) {
				cs.Fail("invariance/after-caller-wrote-into-earlier-result", det(core.W{"scalars_overwritten": written, "error": errStr(aerr), "problem": fmt.Sprint(aperr), "decoded_again": vdump(again), "expected": vdump(want)}))
				return
			}
		}
	})
	// (1b) status counts near 2^16 (where 16-bit counters wrap), final runs that overshoot
	c.Section("near-wrap", c.N(400, 20000), func(cs *core.Case) {
		r := cs.R
		n := r.Pick(57343, 57344, 57345, 57346, 60000, 65520, 65521, 65522, 65534, 65535)
		m := &gen.TWCCModel{Sender: r.U32(), Media: r.U32(), Base: r.U16(), RefTime: r.U32() & 0xFFFFFF, FbCount: r.U8(), NoPFlag: r.Chance(1, 4)}
		for len(m.Status) < n {
			sym := uint8(r.Pick(0, 0, 0, 0, 0, 0, 1, 2))
			run := 1 + r.Intn(9000)
			if r.Chance(1, 4) {
				run = 1 + r.Intn(20)
			}
			for ; run > 0 && len(m.Status) < n; run-- {
				m.Status = append(m.Status, sym)
			}
		}
		// make the tail a received run, so that an unclipped run would create surplus deltas
		tail := 1 + r.Intn(300)
		ts := uint8(1 + r.Intn(2))
		for i := n - tail; i < n; i++ {
			m.Status[i] = ts
		}
		for _, s := range m.Status {
			if s == 1 {
				m.Deltas = append(m.Deltas, int64(r.Intn(256)))
			} else if s == 2 {
				m.Deltas = append(m.Deltas, int64(r.Intn(65536)-32768))
			}
		}
		want := modelProjection(m)
		for k := 0; k < 3; k++ {
			chunks := m.Chunks(r, gen.ChunkOpts{OvershootRun: true, ZeroRuns: r.Chance(1, 3)})
			v := m.Value(chunks)
			e, err := ref.Encode(v, ref.RFC)
			if err != nil || len(e.B) >= 65536 {
				continue
			}
			got, derr, pan := gUnmarshalOwn(gen.TWCC, cloneBytes(e.B))
			cs.Eval(1)
			cs.Distinct(core.Digest(e.B))
			cs.Count("near-wrap")
			det := func(extra core.W) core.W {
				d := core.W{"status_count": n, "chunks": len(chunks), "last_chunk": vdump(chunks[len(chunks)-1]), "input_len": len(e.B), "input_head_hex": mon.Hex(e.B, 64)}
				for a, b := range extra {
					d[a] = b
				}
				return d
			}
			if pan != "" {
				cs.Fail("panic/Unmarshal", det(core.W{"panic": pan}))
				return
			}
			if derr != nil {
				cs.Fail("invariance/rejected", det(core.W{"error": errStr(derr)}))
				continue
			}
			t := got.(*rtcp.TransportLayerCC)
			proj, perr := projectTWCC(t)
			if perr != nil || !mon.SemEqual(proj, want) {
				cs.Fail("invariance/differs", det(core.W{"problem": fmt.Sprint(perr), "decoded_chunks": len(t.PacketChunks), "decoded_deltas": len(t.RecvDeltas), "expected_deltas": len(want.Deltas)}))
				continue
			}
			c13Walk(cs, e.B, t, "own")
		}
	})
	// (1a') the type's own decoder handed a buffer that goes on after the packet (other frames, the
	// rest of a receive buffer), up to and beyond 64 KiB in total: the packet ends where its length
	// field says, whatever the length of the buffer
	c.Section("trailing-octets", c.N(6000, 300000), func(cs *core.Case) {
		r := cs.R
		m := gen.TWCCModelGen(r, gen.Opts{Small: r.Chance(3, 4), NoBig: true})
		chunks := m.Chunks(r, gen.ChunkOpts{OvershootRun: true})
		e, err := ref.Encode(m.Value(chunks), ref.RFC)
		if err != nil {
			return
		}
		total := r.Pick(len(e.B)+1, len(e.B)+4, len(e.B)+1+r.Intn(64), 65535, 65536, 65537, 65536+r.Intn(len(e.B)+40), 65536+r.Intn(400), 131072+r.Intn(400), 262144)
		if total <= len(e.B) {
			total = len(e.B) + 4
		}
		buf := make([]byte, total)
		copy(buf, e.B)
		if r.Bool() {
			copy(buf[len(e.B):], r.Bytes(min(total-len(e.B), 512)))
		}
		got, derr, pan := gUnmarshalOwn(gen.TWCC, buf)
		cs.Eval(1)
		cs.Distinct(core.Digest(e.B, []byte{byte(total >> 16), byte(total >> 8), byte(total)}))
		cs.Count("trailing-octets")
		det := func(extra core.W) core.W {
			d := core.W{"packet_hex": mon.Hex(e.B, 256), "packet_len": len(e.B), "buffer_len": total, "model_status": fmt.Sprint(m.Status), "chunking": vdump(chunks)}
			for kk, vv := range extra {
				d[kk] = vv
			}
			return d
		}
		if pan != "" {
			cs.Fail("panic/Unmarshal", det(core.W{"panic": pan}))
			return
		}
		if derr != nil {
			cs.Count("trailing-octets/rejected")
			return
		}
		t := got.(*rtcp.TransportLayerCC)
		proj, perr := projectTWCC(t)
		if perr != nil || !mon.SemEqual(proj, modelProjection(m)) {
			cs.Fail("trailing/differs", det(core.W{"problem": fmt.Sprint(perr), "decoded": vdump(t)}))
			return
		}
		c13Walk(cs, e.B, t, "own+trailing")
	})
	// (1b') feedback of 64 KiB and more (tens of thousands of received packets with their deltas): the
	// unchanged library refuses every such packet (its length arithmetic is 16 bits wide), which is
	// allowed; a library that accepts one must decode it like any other
	c.Section("over-64KiB", c.N(60, 1500), func(cs *core.Case) {
		r := cs.R
		n := r.Pick(32760, 40000, 65000, 65500, 65520, 65535)
		m := &gen.TWCCModel{Sender: r.U32(), Media: r.U32(), Base: r.U16(), RefTime: r.U32() & 0xFFFFFF, FbCount: r.U8(), NoPFlag: r.Bool()}
		big := r.Chance(1, 3)
		for len(m.Status) < n {
			sym := uint8(1)
			if big || r.Chance(1, 50) {
				sym = 2
			}
			if r.Chance(1, 200) {
				sym = 0
			}
			for run := 1 + r.Intn(9000); run > 0 && len(m.Status) < n; run-- {
				m.Status = append(m.Status, sym)
			}
		}
		for i, s := range m.Status {
			switch s {
			case 1:
				m.Deltas = append(m.Deltas, int64(i%251))
			case 2:
				m.Deltas = append(m.Deltas, int64(i%60001)-30000)
			}
		}
		chunks := m.Chunks(r, gen.ChunkOpts{})
		e, err := ref.Encode(m.Value(chunks), ref.RFC)
		if err != nil {
			cs.Count("over-64KiB/reference-refuses")
			return
		}
		if len(e.B) < 65536 {
			cs.Count("over-64KiB/below-64KiB")
		} else {
			cs.Count("over-64KiB/at-least-64KiB")
		}
		got, derr, pan := gUnmarshalOwn(gen.TWCC, cloneBytes(e.B))
		cs.Eval(1)
		cs.Distinct(core.Digest(e.B[:min(64, len(e.B))], []byte{byte(len(e.B) >> 16), byte(len(e.B) >> 8), byte(len(e.B))}))
		if pan != "" {
			cs.Fail("panic/Unmarshal", core.W{"statuses": n, "input_len": len(e.B), "input_head_hex": mon.Hex(e.B, 48), "panic": pan})
			return
		}
		if derr != nil {
			cs.Count("over-64KiB/rejected")
			return
		}
		cs.Count("over-64KiB/accepted")
		c13Walk(cs, e.B, got.(*rtcp.TransportLayerCC), "own")
	})
	// (1c) chunks announcing 64 KiB and more of delta octets in a packet that declares far less
	c.Section("announced-overflow", c.N(2000, 60000), func(cs *core.Case) {
		r := cs.R
		cnt := 32769 + r.Intn(32767)
		sym := r.Pick(1, 2, 2, 2)
		chunks := (cnt + 8190) / 8191
		wrapped := cnt * sym % 65536
		n := 20 + 2*chunks + wrapped + r.Pick(0, 0, 1, 2, 3, 4, 64)
		n += (4 - n%4) % 4
		if n > 65532 {
			n = 65532
		}
		spare := r.Pick(0, 0, 200000)
		backing := make([]byte, n+spare)
		in := backing[:n]
		copy(in[4:20], r.Bytes(16))
		for i := 0; i < chunks; i++ {
			w := sym<<13 | 0x1FFF
			in[20+2*i], in[21+2*i] = byte(w>>8), byte(w)
		}
		in[0], in[1] = 0x8F, 205
		gen.FitLength(in)
		in[14], in[15] = byte(cnt>>8), byte(cnt)
		got, derr, pan := gUnmarshalOwn(gen.TWCC, in)
		cs.Eval(1)
		head := in
		if len(head) > 64 {
			head = head[:64]
		}
		cs.Distinct(core.Digest(head, []byte{byte(n >> 8), byte(n), byte(spare >> 16)}))
		cs.Count("announced-overflow")
		if pan != "" {
			cs.Fail("panic/Unmarshal", core.W{"status_count": cnt, "symbol": sym, "input_len": n, "spare_capacity": spare, "input_head_hex": mon.Hex(in, 48), "panic": pan})
			return
		}
		if derr == nil {
			c13Walk(cs, in, got.(*rtcp.TransportLayerCC), "own")
		}
	})
	// (2) arbitrary accepted octets: mutants
	c.Section("mutants", c.N(500000, 90000000), func(cs *core.Case) {
		r := cs.R
		m := gen.TWCCModelGen(r, gen.Opts{NoBig: !r.Chance(1, 50)})
		v := m.Value(m.Chunks(r, gen.ChunkOpts{OvershootRun: true, ZeroRuns: r.Chance(1, 3)}))
		e, err := ref.Encode(v, ref.RFC)
		if err != nil {
			return
		}
		in := twccMutate(r, e.B)
		got, derr, pan := gUnmarshalOwn(gen.TWCC, cloneBytes(in))
		cs.Eval(1)
		if pan != "" {
			cs.Fail("panic/Unmarshal", core.W{"input_hex": mon.Hex(in, 256), "panic": pan})
			return
		}
		if derr != nil {
			cs.Count("mutant-rejected")
			return
		}
		cs.Count("mutant-accepted")
		c13Walk(cs, in, got.(*rtcp.TransportLayerCC), "own")
		cs.Sample("accepted-mutant", func() any { return map[string]any{"input_hex": mon.Hex(in, 96), "decoded": vdump(got)} })
		// through the datagram decoder when the frame is exact
		if len(in)%4 == 0 && len(in) >= 4 && 4*(int(in[2])<<8|int(in[3])+1) == len(in) {
			ps, uerr, upan := gUnmarshal(cloneBytes(in))
			cs.Eval(1)
			if upan != "" {
				cs.Fail("panic/rtcp.Unmarshal", core.W{"input_hex": mon.Hex(in, 256), "panic": upan})
			} else if uerr == nil && len(ps) == 1 {
				if t2, ok := ps[0].(*rtcp.TransportLayerCC); ok {
					c13Walk(cs, in, t2, "datagram")
				}
			}
		}
	})
	// (3) random bodies with a plausible header
	c.Section("random-bodies", c.N(200000, 8000000), func(cs *core.Case) {
		r := cs.R
		words := 4 + r.Intn(12)
		in := r.Bytes(4 + 4*words)
		in[0] = 0x8F | byte(r.Intn(2))<<5
		in[1] = 205
		in[2], in[3] = byte(words>>8), byte(words)
		c := r.Pick(0, 1, 3, 7, 14, 20, 28, 40)
		in[14], in[15] = byte(c>>8), byte(c)
		got, derr, pan := gUnmarshalOwn(gen.TWCC, cloneBytes(in))
		cs.Eval(1)
		if pan != "" {
			cs.Fail("panic/Unmarshal", core.W{"input_hex": mon.Hex(in, 256), "panic": pan})
			return
		}
		if derr != nil {
			cs.Count("random-rejected")
			return
		}
		cs.Count("random-accepted")
		c13Walk(cs, in, got.(*rtcp.TransportLayerCC), "own")
	})
	// regression witnesses of the two repaired decoder defects
	c.Once("regression", func(cs *core.Case) {
		m := &gen.TWCCModel{Sender: 1, Media: 2, Base: 3, RefTime: 4, FbCount: 5, Status: []uint8{0, 0, 0, 0, 0, 0, 0}}
		v := m.Value([]rtcp.PacketStatusChunk{&rtcp.RunLengthChunk{RunLength: 3}, &rtcp.RunLengthChunk{RunLength: 4}})
		e, _ := ref.Encode(v, ref.RFC)
		got, derr, _ := gUnmarshalOwn(gen.TWCC, cloneBytes(e.B))
		cs.Eval(1)
		if derr != nil {
			cs.Fail("invariance/rejected", core.W{"input_hex": mon.Hex(e.B, 64), "error": errStr(derr), "note": "last status chunk ends at the packet end"})
		} else {
			c13Walk(cs, e.B, got.(*rtcp.TransportLayerCC), "own")
		}
		// status count 65535 ending in a vector chunk with unused symbols
		big := &gen.TWCCModel{Sender: 1, Media: 2, Status: make([]uint8, 65535)}
		var chunks []rtcp.PacketStatusChunk
		for i := 0; i < 7; i++ {
			chunks = append(chunks, &rtcp.RunLengthChunk{RunLength: 8191})
		}
		chunks = append(chunks, &rtcp.RunLengthChunk{RunLength: 8191 - 3}, &rtcp.StatusVectorChunk{Type: 1, SymbolSize: 0, SymbolList: make([]uint16, 14)})
		vb := big.Value(chunks)
		eb, err := ref.Encode(vb, ref.RFC)
		if err != nil {
			cs.C.Res.HarnessErrors = append(cs.C.Res.HarnessErrors, "regression: "+err.Error())
			return
		}
		gb, derr2, _ := gUnmarshalOwn(gen.TWCC, cloneBytes(eb.B))
		cs.Eval(1)
		if derr2 != nil {
			cs.Fail("invariance/rejected", core.W{"input_hex": mon.Hex(eb.B, 64), "error": errStr(derr2), "note": "status count 65535, last chunk a vector with unused symbols"})
		} else {
			c13Walk(cs, eb.B, gb.(*rtcp.TransportLayerCC), "own")
		}
	})
}
