package props

import (
	"fmt"

	"github.com/pion/rtcp"

	"verifharness/internal/core"
	"verifharness/internal/gen"
	"verifharness/internal/mon"
	"verifharness/internal/ref"
)

func init() {
	core.Register(&core.PropDef{
		ID:        "C06",
		Run:       runC06,
		Technique: "runtime conservation/locality checker over generated frame traces: exactly-once, concatenation, context-freedom and all-or-nothing of rtcp.Unmarshal",
		Rule: "datagrams built as logged sequences of 1..40 reference-encoded frames (all 14 registered types, raw frames with arbitrary unregistered PT/FMT) plus the library's own Marshal output; " +
			"then every split point between frames, a malformed but well-framed frame and a valid frame damaged until rejected alone (inner lengths/counts, dropped trailing words) inserted at a random position, the tail cut at offsets strictly inside a frame, 1..7 surplus octets that cannot form a packet, datagrams of frames judged by the library itself (short frames of registered combinations, neighbours filled with the magic words decoders look for), the empty datagram, datagrams of 65535..131073 minimal frames (each carrying its index) with and without an unparseable tail, frames with length fields 0x3FFE..0xFFFF, capacity independence of every own decoder (buf[:n] of a larger array vs an exact copy), agreement of CompoundPacket.Unmarshal with rtcp.Unmarshal; " +
			"non-trivial = a datagram of at least 2 frames or a fault-injected datagram; distinct by digest of the datagram octets",
		Assumptions: []string{
			"a malformed frame is one that is self-delimiting (length field = its size, or bad version) and that rtcp.Unmarshal rejects when given alone; cutting exactly at a frame boundary leaves a valid shorter datagram and is a concatenation case, not a truncation",
			"surplus octets are chosen so that they cannot be a complete packet (fewer than 4 octets, version != 2, or a length field exceeding what is present)",
		},
		MinDistinctQuick: 20000, MinDistinctThorough: 500000,
	})
}

type frame struct {
	kind gen.Kind
	b    []byte
	val  rtcp.Packet // model value (nil for raw random frames)
}

// genFrame draws one well-framed frame.
func genFrame(r *core.Rand, own bool) (frame, bool) {
	k := gen.Kind(r.Intn(int(gen.Compound))) // 15 kinds incl. Raw
	v := gen.Packet(r, k, gen.Opts{Small: true, NoBig: true})
	if own {
		b, err, pan := gMarshal(v)
		if err != nil || pan != "" {
			return frame{}, false
		}
		return frame{k, b, v}, true
	}
	e, err := ref.Encode(v, ref.Lib)
	if err != nil {
		return frame{}, false
	}
	return frame{k, e.B, v}, true
}

// malformedFrame draws a frame that must make any datagram containing it fail.
func malformedFrame(r *core.Rand) []byte {
	if r.Chance(1, 40) {
		// an SDES frame of N >= 256 well-formed chunks whose count field says N mod 256 (a count
		// compared in 8 bits would agree), and the same for a BYE-like count of sources in an RR
		n := r.Pick(256, 257, 258, 270, 287, 512, 513, 543)
		b := []byte{0x80 | byte(n%256), 202, 0, 0}
		for i := 0; i < n; i++ {
			b = append(b, byte(i>>8), byte(i), r.U8(), r.U8(), 1, 2, 'a', 'b', 0, 0, 0, 0)
		}
		gen.FitLength(b)
		return b
	}
	switch r.Intn(6) {
	case 0: // bad version, arbitrary rest
		b := r.Bytes(4 * (1 + r.Intn(4)))
		b[0] = b[0]&0x3F | byte(r.Pick(0, 1, 3))<<6
		return b
	case 1: // PLI/RRR/REMB/… too short for their type, well framed
		pt, fmtv := byte(206), byte(1)
		switch r.Intn(5) {
		case 1:
			pt, fmtv = 205, 5
		case 2:
			pt, fmtv = 206, 15
		case 3:
			pt, fmtv = 205, 15
		case 4:
			pt, fmtv = 205, 1
		}
		words := r.Intn(2) // 4 or 8 octets
		b := make([]byte, 4+4*words)
		copy(b[4:], r.Bytes(4*words))
		b[0], b[1], b[2], b[3] = 0x80|fmtv, pt, 0, byte(words)
		return b
	case 2: // SR whose count claims more reports than it holds
		e, _ := ref.Encode(&rtcp.SenderReport{SSRC: r.U32(), Reports: make([]rtcp.ReceptionReport, r.Intn(3))}, ref.RFC)
		e.B[0] = e.B[0]&0xE0 | byte(int(e.B[0]&0x1F)+1+r.Intn(3))
		return e.B
	case 3: // SDES whose count disagrees
		e, _ := ref.Encode(rtcp.NewCNAMESourceDescription(r.U32(), "x"), ref.RFC)
		e.B[0] = e.B[0]&0xE0 | byte(2+r.Intn(20))
		return e.B
	case 4: // REMB without its identifier
		e, _ := ref.Encode(&rtcp.ReceiverEstimatedMaximumBitrate{SenderSSRC: r.U32(), Bitrate: 1000}, ref.RFC)
		e.B[12] = 'X'
		return e.B
	default: // BYE whose count exceeds its sources
		e, _ := ref.Encode(&rtcp.Goodbye{Sources: []uint32{r.U32()}}, ref.RFC)
		e.B[0] = e.B[0]&0xE0 | byte(3+r.Intn(20))
		return e.B
	}
}

// malformedFromValid damages a valid frame of any type without changing its size or its
// header length field (inner length / count octets, body octets), until rtcp.Unmarshal rejects
// it when given alone in a slice of exactly its size. Such a frame is self-delimiting, so a
// datagram containing it anywhere must fail as a whole.
func malformedFromValid(cs *core.Case, r *core.Rand) []byte {
	for tries := 0; tries < 40; tries++ {
		f, ok := genFrame(r, false)
		if !ok || len(f.b) < 8 {
			continue
		}
		m := cloneBytes(f.b)
		if r.Chance(1, 3) && len(m) >= 12 {
			// drop the last 1..3 words and refit the length field: still self-delimiting, but the
			// type's own element count / inner lengths now overrun the frame
			m = m[:len(m)-4*r.Pick(1, 1, 1, 2, 3)]
			if len(m) < 8 {
				continue
			}
			gen.FitLength(m)
			ps, err, pan := gUnmarshal(cloneBytes(m))
			if pan != "" {
				cs.Fail("panic/rtcp.Unmarshal", core.W{"input_hex": mon.Hex(m, 300), "panic": pan, "note": "a valid frame with its last words dropped and the length field refitted"})
				return nil
			}
			if err != nil && ps == nil {
				return m
			}
			if r.Bool() {
				continue
			}
		}
		for n := 1 + r.Intn(3); n > 0; n-- {
			switch r.Intn(5) {
			case 0: // an inner octet → large value (length octets of BYE reasons, SDES items, REMB counts, …)
				m[4+r.Intn(len(m)-4)] = byte(r.Pick(0xFF, 0xFE, 0x80, 0x7F, len(m), len(m)-4))
			case 1: // count / FMT bits
				m[0] = m[0]&0xE0 | byte(r.Intn(32))
			case 2: // a 16-bit inner field → boundary
				o := 4 + 2*r.Intn((len(m)-4)/2)
				v := r.Pick(0xFFFF, 0x7FFF, 0x8000, 0x3FFF, 0x4000, len(m), len(m)/2)
				m[o], m[o+1] = byte(v>>8), byte(v)
			case 3: // the last octets (padding counts, terminators)
				m[len(m)-1-r.Intn(4)] = byte(r.Pick(0xFF, 0x80, len(m), 5, 9))
			default:
				m[4+r.Intn(len(m)-4)] ^= byte(1 << uint(r.Intn(8)))
			}
		}
		ps, err, pan := gUnmarshal(cloneBytes(m))
		if pan != "" {
			cs.Fail("panic/rtcp.Unmarshal", core.W{"input_hex": mon.Hex(m, 300), "panic": pan, "note": "a valid frame damaged in place"})
			return nil
		}
		if err != nil && ps == nil {
			return m
		}
	}
	return nil
}

func surplus(r *core.Rand) []byte {
	n := 1 + r.Intn(7)
	b := r.Bytes(n)
	if n >= 4 {
		if r.Bool() {
			b[0] = b[0]&0x3F | byte(r.Pick(0, 1, 3))<<6 // bad version
		} else {
			b[0] = b[0]&0x3F | 0x80
			b[2], b[3] = byte(r.Intn(4)), byte(1+r.Intn(255)) // needs at least 8 octets, only 4..7 are present
		}
	}
	return b
}

func concatFrames(fs []frame) []byte {
	var out []byte
	for _, f := range fs {
		out = append(out, f.b...)
	}
	return out
}

func c06MustFail(cs *core.Case, aspect string, in []byte, note string) {
	ps, err, pan := gUnmarshal(cloneBytes(in))
	cs.Eval(1)
	cs.Distinct(core.Digest([]byte(aspect), in))
	cs.Count(aspect)
	if pan != "" {
		cs.Fail("panic/rtcp.Unmarshal", core.W{"input_hex": mon.Hex(in, 400), "panic": pan, "note": note})
		return
	}
	cs.Check(err != nil && ps == nil, aspect, func() core.W {
		return core.W{"input_hex": mon.Hex(in, 400), "error": errStr(err), "packets": vdump(ps), "note": note}
	})
}

// c06ExpectReject is c06MustFail for inputs too large to print.
func c06ExpectReject(cs *core.Case, aspect string, in []byte, d core.W) {
	ps, err, pan := gUnmarshal(in)
	cs.Eval(1)
	cs.Count(aspect)
	if pan != "" {
		d["panic"] = pan
		cs.Fail("panic/rtcp.Unmarshal", d)
		return
	}
	if err == nil || ps != nil {
		d["error"], d["packets_returned"] = errStr(err), len(ps)
		cs.Fail(aspect, d)
	}
}

func c06Datagram(cs *core.Case, fs []frame, source string) {
	r := cs.R
	in := concatFrames(fs)
	trace := func() string {
		s := ""
		off := 0
		for _, f := range fs {
			s += fmt.Sprintf("%s@%d+%d ", f.kind, off, len(f.b))
			off += len(f.b)
		}
		return s
	}
	det := func(extra core.W) core.W {
		d := core.W{"frames": trace(), "input_hex": mon.Hex(in, 400), "source": source}
		for k, v := range extra {
			d[k] = v
		}
		return d
	}
	// reference results: each frame decoded alone
	alone := make([]rtcp.Packet, len(fs))
	for i, f := range fs {
		ps, err, pan := gUnmarshal(cloneBytes(f.b))
		cs.Eval(1)
		if pan != "" {
			cs.Fail("panic/rtcp.Unmarshal", det(core.W{"panic": pan, "frame": i}))
			return
		}
		if err != nil || len(ps) != 1 {
			// a well-framed frame of D rejected alone: C02/C04 territory; not judged here
			cs.Count("frame-rejected-alone/" + f.kind.String())
			return
		}
		alone[i] = ps[0]
	}
	ps, err, pan := gUnmarshal(cloneBytes(in))
	cs.Eval(1)
	if len(fs) >= 2 {
		cs.Distinct(core.Digest([]byte(source), in))
	}
	cs.Count("datagram/" + source)
	cs.Sample("datagram/"+source, func() any { return map[string]any{"frames": trace(), "input_hex": mon.Hex(in, 96)} })
	if pan != "" {
		cs.Fail("panic/rtcp.Unmarshal", det(core.W{"panic": pan}))
		return
	}
	if err != nil {
		cs.Fail("exactly-once/rejected", det(core.W{"error": errStr(err)}))
		return
	}
	if len(ps) != len(fs) {
		cs.Fail("exactly-once/count", det(core.W{"packets": len(ps), "frames": len(fs), "decoded": vdump(ps)}))
		return
	}
	for i := range fs {
		if !mon.SemEqual(ps[i], alone[i]) {
			cs.Fail("context-free/packet-differs", det(core.W{"index": i, "in_datagram": vdump(ps[i]), "alone": vdump(alone[i])}))
			return
		}
		if fs[i].kind != gen.Raw && fs[i].kind != gen.SLI {
			own, oerr, opan := gUnmarshalOwn(fs[i].kind, cloneBytes(fs[i].b))
			cs.Eval(1)
			if opan != "" {
				cs.Fail("panic/Unmarshal", det(core.W{"panic": opan, "frame": i}))
				return
			}
			if oerr != nil || !mon.SemEqual(ps[i], own) {
				cs.Fail("exactly-once/own-decoder-differs", det(core.W{"index": i, "in_datagram": vdump(ps[i]), "own": vdump(own), "own_error": errStr(oerr)}))
				return
			}
		}
	}
	// CompoundPacket.Unmarshal splits the same way: when it accepts, its members are these packets
	{
		var cp rtcp.CompoundPacket
		var cerr error
		if panicked, v, st := core.Guard(func() { cerr = cp.Unmarshal(cloneBytes(in)) }); panicked {
			cs.Fail("panic/CompoundPacket.Unmarshal", det(core.W{"panic": v, "stack": st}))
			return
		}
		cs.Eval(1)
		if cerr == nil {
			cs.Count("compound-decoder-agrees")
			if !mon.SemEqual([]rtcp.Packet(cp), ps) {
				cs.Fail("exactly-once/compound-decoder-differs", det(core.W{"compound": vdump(&cp), "datagram": vdump(ps)}))
				return
			}
		}
	}
	// concat at split points
	for _, sp := range splitPoints(r, len(fs)) {
		a, b := concatFrames(fs[:sp]), concatFrames(fs[sp:])
		pa, ea, pana := gUnmarshal(cloneBytes(a))
		pb, eb, panb := gUnmarshal(cloneBytes(b))
		cs.Eval(2)
		if pana != "" || panb != "" {
			cs.Fail("panic/rtcp.Unmarshal", det(core.W{"panic": pana + panb, "split": sp}))
			return
		}
		if ea != nil || eb != nil || !mon.SemEqual(append(append([]rtcp.Packet{}, pa...), pb...), ps) {
			cs.Fail("concat", det(core.W{"split": sp, "error_a": errStr(ea), "error_b": errStr(eb)}))
			return
		}
	}
	// all-or-nothing
	pos := r.Intn(len(fs) + 1)
	bad := malformedFrame(r)
	if ps1, err1, pan1 := gUnmarshal(cloneBytes(bad)); pan1 == "" && (err1 != nil && ps1 == nil) {
		var withBad []byte
		withBad = append(withBad, concatFrames(fs[:pos])...)
		withBad = append(withBad, bad...)
		withBad = append(withBad, concatFrames(fs[pos:])...)
		c06MustFail(cs, "all-or-nothing/malformed-frame", withBad, fmt.Sprintf("malformed frame %s inserted before frame %d of [%s]", mon.Hex(bad, 64), pos, trace()))
	} else if pan1 != "" {
		cs.Fail("panic/rtcp.Unmarshal", core.W{"input_hex": mon.Hex(bad, 64), "panic": pan1})
	} else {
		cs.Fail("all-or-nothing/malformed-frame-accepted-alone", core.W{"input_hex": mon.Hex(bad, 64), "packets": vdump(ps1)})
	}
	// a damaged frame of a registered type (rejected alone) anywhere in the datagram
	if bad2 := malformedFromValid(cs, r); bad2 != nil {
		pos2 := r.Intn(len(fs) + 1)
		var with []byte
		with = append(with, concatFrames(fs[:pos2])...)
		with = append(with, bad2...)
		with = append(with, concatFrames(fs[pos2:])...)
		c06MustFail(cs, "all-or-nothing/damaged-frame", with, fmt.Sprintf("frame %s (rejected when decoded alone) inserted before frame %d of [%s]", mon.Hex(bad2, 96), pos2, trace()))
	}
	// truncation strictly inside a frame
	fi := r.Intn(len(fs))
	off := 0
	for i := 0; i < fi; i++ {
		off += len(fs[i].b)
	}
	cut := off + 1 + r.Intn(len(fs[fi].b)-1)
	c06MustFail(cs, "all-or-nothing/truncated", in[:cut], fmt.Sprintf("cut at %d inside frame %d of [%s]", cut, fi, trace()))
	// short datagrams: every cut offset strictly inside a frame, and the malformed frame at every position
	if len(in) <= 96 {
		bounds := map[int]bool{0: true}
		o := 0
		for _, f := range fs {
			o += len(f.b)
			bounds[o] = true
		}
		for c := 1; c < len(in); c++ {
			if !bounds[c] {
				c06MustFail(cs, "all-or-nothing/truncated", in[:c], fmt.Sprintf("cut at %d (every offset inside a frame) of [%s]", c, trace()))
			}
		}
		for p := 0; p <= len(fs); p++ {
			var with []byte
			with = append(with, concatFrames(fs[:p])...)
			with = append(with, bad...)
			with = append(with, concatFrames(fs[p:])...)
			c06MustFail(cs, "all-or-nothing/malformed-frame", with, fmt.Sprintf("malformed frame %s at every position: before frame %d of [%s]", mon.Hex(bad, 64), p, trace()))
		}
	}
	// surplus octets
	c06MustFail(cs, "all-or-nothing/surplus", append(cloneBytes(in), surplus(r)...), "surplus octets appended to ["+trace()+"]")
}

func splitPoints(r *core.Rand, n int) []int {
	if n < 2 {
		return nil
	}
	if n <= 6 {
		var out []int
		for i := 1; i < n; i++ {
			out = append(out, i)
		}
		return out
	}
	return []int{1, n - 1, 1 + r.Intn(n-1), 1 + r.Intn(n-1)}
}

func runC06(c *core.Ctx) {
	c.Once("empty", func(cs *core.Case) {
		c06MustFail(cs, "all-or-nothing/empty", []byte{}, "empty datagram")
		c06MustFail(cs, "all-or-nothing/empty", nil, "nil datagram")
	})
	// datagrams of tens of thousands of minimal frames (frame counts around and above 2^16); frame i
	// is a BYE whose single source is i, so a lost, repeated or reordered frame is identifiable
	manyN := []int{65535, 65536, 65537, 65538, 70001, 131073}
	c.Section("many-frames", uint64(len(manyN))*c.N(3, 20), func(cs *core.Case) {
		r := cs.R
		n := manyN[cs.Idx%uint64(len(manyN))]
		base := r.U32()
		in := make([]byte, 0, 8*n+16)
		for i := 0; i < n; i++ {
			v := base + uint32(i)
			in = append(in, 0x81, 203, 0, 1, byte(v>>24), byte(v>>16), byte(v>>8), byte(v))
		}
		det := func(extra core.W) core.W {
			d := core.W{"frames": n, "frame_i": "81 cb 00 01 <base+i>", "base": base, "input_len": len(in)}
			for k, v := range extra {
				d[k] = v
			}
			return d
		}
		ps, err, pan := gUnmarshal(cloneBytes(in))
		cs.Eval(1)
		cs.Distinct(core.Digest([]byte("many"), in[:8], []byte{byte(n >> 16), byte(n >> 8), byte(n)}))
		cs.Count("many-frames")
		if pan != "" {
			cs.Fail("panic/rtcp.Unmarshal", det(core.W{"panic": pan}))
			return
		}
		if err != nil {
			cs.Fail("exactly-once/rejected", det(core.W{"error": errStr(err)}))
			return
		}
		if len(ps) != n {
			cs.Fail("exactly-once/count", det(core.W{"packets": len(ps)}))
			return
		}
		for i, p := range ps {
			g, ok := p.(*rtcp.Goodbye)
			if !ok || len(g.Sources) != 1 || g.Sources[0] != base+uint32(i) || g.Reason != "" {
				cs.Fail("exactly-once/packet-differs", det(core.W{"index": i, "packet": vdump(p)}))
				return
			}
		}
		// a tail that cannot be a packet, after all of them
		var tail []byte
		switch r.Intn(3) {
		case 0:
			tail = surplus(r)
		case 1:
			tail = malformedFrame(r)
		default:
			tail = []byte{0x81, 206, 0, 2, 1, 2, 3, 4} // PLI cut after 8 of its 12 octets
		}
		if ps1, err1, pan1 := gUnmarshal(cloneBytes(tail)); pan1 == "" && err1 != nil && ps1 == nil {
			c06ExpectReject(cs, "all-or-nothing/tail-after-many", append(cloneBytes(in), tail...), det(core.W{"tail_hex": mon.Hex(tail, 64)}))
		}
	})
	// frames with the maximum length field 0xFFFF (262144 octets), alone and between neighbours
	bigLens := []int{0x3FFE, 0x3FFF, 0x4000, 0x4001, 0x7FFF, 0x8000, 0xBFFF, 0xC000, 0xFFFE, 0xFFFF, 0xFFFF, 0xFFFF}
	c.Section("max-frame", uint64(len(bigLens))*c.N(4, 40), func(cs *core.Case) {
		r := cs.R
		lf := bigLens[cs.Idx/4%uint64(len(bigLens))]
		n := 4 * (lf + 1)
		b := make([]byte, n)
		kind := "raw"
		switch cs.Idx % 4 {
		case 0:
			b[0], b[1] = 0x80|byte(r.Intn(32)), byte(r.Pick(199, 208, 192))
			copy(b[4:], r.Bytes(256))
		case 1:
			kind = "APP"
			b[0], b[1] = 0x80|byte(r.Intn(32)), 204
			copy(b[4:], r.Bytes(256))
		case 2:
			kind = "SR"
			b[0], b[1] = 0x80, 200
			copy(b[4:], r.Bytes(256))
		default:
			kind = "XR"
			b[0], b[1] = 0x80, 207
			b[8] = 99
			bl := (n-8)/4 - 1
			b[10], b[11] = byte(bl>>8), byte(bl)
		}
		b[2], b[3] = byte(lf>>8), byte(lf)
		pre := []byte{0x81, 206, 0, 2, 1, 2, 3, 4, 5, 6, 7, 8}
		for _, in := range [][]byte{b, append(append(cloneBytes(pre), b...), pre...)} {
			ps, err, pan := gUnmarshal(cloneBytes(in))
			cs.Eval(1)
			cs.Distinct(core.Digest([]byte("max"), in[:300], []byte{byte(len(in) >> 16), byte(len(in) >> 8), byte(len(in))}))
			cs.Count("max-frame/" + kind)
			if pan != "" {
				cs.Fail("panic/rtcp.Unmarshal", core.W{"input_hex": mon.Hex(in, 64), "input_len": len(in), "panic": pan})
				return
			}
			want := 1
			if len(in) > n {
				want = 3
			}
			cs.Check(err == nil && len(ps) == want, "exactly-once/max-length-frame/"+kind, func() core.W {
				return core.W{"input_hex": mon.Hex(in, 64), "input_len": len(in), "error": errStr(err), "packets": len(ps), "expected_packets": want}
			})
		}
	})
	for _, src := range []string{"reference", "own-marshal"} {
		src := src
		n := c.N(150000, 10000000)
		if src == "own-marshal" {
			n = c.N(50000, 3000000)
		}
		c.Section("datagrams-"+src, n, func(cs *core.Case) {
			r := cs.R
			nf := r.Pick(1, 2, 2, 3, 3, 4, 5, 8, 12, 40)
			var fs []frame
			if r.Chance(1, 4) {
				// compound-shaped prefix: (SR|RR) RR* SDES-with-CNAME, so that CompoundPacket.Unmarshal accepts too
				for _, m := range *gen.CompoundValue(r, gen.Opts{Small: true, NoBig: true}) {
					if src == "own-marshal" {
						if b, err, pan := gMarshal(m); err == nil && pan == "" && len(b) >= 4 {
							fs = append(fs, frame{gen.KindOf(m), b, m})
						}
					} else if e, err := ref.Encode(m, ref.Lib); err == nil {
						fs = append(fs, frame{gen.KindOf(m), e.B, m})
					}
				}
			}
			for len(fs) < nf {
				f, ok := genFrame(r, src == "own-marshal")
				if ok && len(f.b) >= 4 {
					fs = append(fs, f)
				}
			}
			if r.Chance(1, 6) {
				// neighbouring frames of one sender that belong together by content: a full report (31
				// blocks) followed by further receiver reports of the same sender (how a receiver with more
				// than 31 sources reports), two feedback packets of one type for one media source. Each
				// frame is still one packet.
				x := r.B32()
				var vs []rtcp.Packet
				switch r.Intn(3) {
				case 0:
					first := &rtcp.ReceiverReport{SSRC: x}
					for i := 0; i < r.Pick(31, 31, 30); i++ {
						first.Reports = append(first.Reports, gen.Report(r))
					}
					vs = append(vs, first)
					for i := 1 + r.Intn(2); i > 0; i-- {
						rr := &rtcp.ReceiverReport{SSRC: x}
						for j := r.Intn(4); j >= 0; j-- {
							rr.Reports = append(rr.Reports, gen.Report(r))
						}
						vs = append(vs, rr)
					}
				case 1:
					sr := &rtcp.SenderReport{SSRC: x, NTPTime: r.U64(), RTPTime: r.U32()}
					for i := 0; i < 31; i++ {
						sr.Reports = append(sr.Reports, gen.Report(r))
					}
					vs = append(vs, sr, &rtcp.ReceiverReport{SSRC: x, Reports: []rtcp.ReceptionReport{gen.Report(r)}})
				default:
					k := []gen.Kind{gen.NACK, gen.PLI, gen.FIR, gen.REMB, gen.CCFB, gen.BYE, gen.SDES}[r.Intn(7)]
					a, b := gen.Packet(r, k, gen.Opts{Small: true, NoBig: true}), gen.Packet(r, k, gen.Opts{Small: true, NoBig: true})
					vs = append(vs, a, b)
				}
				pos := r.Intn(len(fs) + 1)
				var ins []frame
				for _, v := range vs {
					if src == "own-marshal" {
						if b, err, pan := gMarshal(v); err == nil && pan == "" && len(b) >= 4 {
							ins = append(ins, frame{gen.KindOf(v), b, v})
						}
					} else if e, err := ref.Encode(v, ref.Lib); err == nil {
						ins = append(ins, frame{gen.KindOf(v), e.B, v})
					}
				}
				fs = append(fs[:pos:pos], append(ins, fs[pos:]...)...)
				cs.Count("datagram/with-related-neighbours")
			}
			c06Datagram(cs, fs, src)
		})
	}
	// frames judged by the library itself: short frames of registered (PT, FMT) combinations and
	// neighbours whose words are the magic values decoders look for ("REMB", header words of every
	// type). Whatever rtcp.Unmarshal accepts alone as exactly one packet is a frame, and for frames
	// the datagram laws hold whatever the neighbours contain: a decoder that peeks beyond its own
	// frame finds something that looks right in these datagrams.
	magic := [][]byte{[]byte("REMB"), {0x8F, 206, 0, 4}, {0x8F, 205, 0, 5}, {0x81, 205, 0, 3}, {0x80, 200, 0, 6}, {0x81, 201, 0, 7}, {0x81, 202, 0, 2}, {0x8B, 205, 0, 3}, {0x80, 207, 0, 2}, {0, 0, 0, 0}, {0xFF, 0xFF, 0xFF, 0xFF}, {0, 1, 0, 0}}
	c.Section("library-judged", c.N(120000, 6000000), func(cs *core.Case) {
		r := cs.R
		candidate := func() []byte {
			switch r.Intn(4) {
			case 0: // short frame of a registered combination, length field 0..3 words
				pc := [][2]byte{{200, 0}, {201, 0}, {202, 0}, {203, 0}, {204, 0}, {205, 1}, {205, 5}, {205, 15}, {205, 11}, {205, 2}, {206, 1}, {206, 2}, {206, 4}, {206, 15}, {207, 0}}[r.Intn(15)]
				words := r.Intn(4)
				b := make([]byte, 4+4*words)
				for w := 1; w <= words; w++ {
					copy(b[4*w:], magic[r.Intn(len(magic))])
				}
				b[0], b[1] = 0x80|pc[1], pc[0]
				if pc[1] == 0 {
					b[0] |= byte(r.Intn(3))
				}
				gen.FitLength(b)
				return b
			case 1, 2: // a frame whose every word is a magic value: RR / APP / BYE / raw
				words := 1 + r.Intn(8)
				b := make([]byte, 4+4*words)
				for w := 1; w <= words; w++ {
					copy(b[4*w:], magic[r.Intn(len(magic))])
				}
				pt := byte(r.Pick(201, 204, 203, 199, 208, 200))
				cnt := byte(0)
				if pt == 203 {
					cnt = byte(words)
				}
				if pt == 204 && words < 2 {
					pt = 201
				}
				b[0], b[1] = 0x80|cnt, pt
				gen.FitLength(b)
				return b
			default:
				if f, ok := genFrame(r, false); ok {
					return f.b
				}
				return []byte{0x80, 201, 0, 1, 'R', 'E', 'M', 'B'}
			}
		}
		var fs []frame
		for tries := 0; tries < 24 && len(fs) < 2+r.Intn(4); tries++ {
			b := candidate()
			ps, err, pan := gUnmarshal(cloneBytes(b))
			cs.Eval(1)
			if pan != "" {
				cs.Fail("panic/rtcp.Unmarshal", core.W{"input_hex": mon.Hex(b, 200), "panic": pan})
				return
			}
			if err == nil && len(ps) == 1 {
				fs = append(fs, frame{gen.Raw, b, nil})
			} else {
				cs.Count("library-judged/candidate-rejected-alone")
			}
		}
		if len(fs) >= 2 {
			c06Datagram(cs, fs, "library-judged")
		}
	})
	// multi-step: decoding into a CompoundPacket variable that already holds a result
	c.Section("compound-receiver", c.N(40000, 1500000), func(cs *core.Case) {
		r := cs.R
		enc := func() []byte {
			var b []byte
			for _, m := range *gen.CompoundValue(r, gen.Opts{Small: true, NoBig: true}) {
				e, err := ref.Encode(m, ref.Lib)
				if err != nil {
					return nil
				}
				b = append(b, e.B...)
			}
			return b
		}
		a, good2 := enc(), enc()
		if a == nil || good2 == nil {
			return
		}
		var cp rtcp.CompoundPacket
		var err error
		guard := func(in []byte) string {
			panicked, v, st := core.Guard(func() { err = cp.Unmarshal(in) })
			if panicked {
				return fmt.Sprintf("%v\n%s", v, st)
			}
			return ""
		}
		if pan := guard(cloneBytes(a)); pan != "" {
			cs.Fail("panic/CompoundPacket.Unmarshal", core.W{"input_hex": mon.Hex(a, 300), "panic": pan})
			return
		}
		cs.Eval(1)
		if err != nil {
			return // a member outside what the library accepts (e.g. SLI dispatch): not judged here
		}
		snapshot := clonePacket(&cp).(*rtcp.CompoundPacket)
		first := cp // the caller keeps the earlier result (slice header copy)
		// (1) a datagram with good frames and then a malformed one: error, and nothing of it is returned
		bad := append(cloneBytes(good2), malformedFrame(r)...)
		if r.Bool() {
			bad = good2[:len(good2)-1-r.Intn(3)] // truncated tail
		}
		if pan := guard(cloneBytes(bad)); pan != "" {
			cs.Fail("panic/CompoundPacket.Unmarshal", core.W{"input_hex": mon.Hex(bad, 300), "panic": pan})
			return
		}
		cs.Eval(1)
		cs.Distinct(core.Digest([]byte("cr"), a, bad))
		cs.Count("compound-receiver")
		det := func(extra core.W) func() core.W {
			return func() core.W {
				d := core.W{"first_datagram_hex": mon.Hex(a, 200), "second_datagram_hex": mon.Hex(bad, 200), "held_before": vdump(snapshot), "held_after": vdump(&cp), "kept_copy_after": vdump(&first)}
				for k, v := range extra {
					d[k] = v
				}
				return d
			}
		}
		if !cs.Check(err != nil, "all-or-nothing/compound-accepts-malformed", det(nil)) {
			return
		}
		if !cs.Check(mon.SemEqual(&cp, snapshot) && mon.SemEqual(&first, snapshot), "all-or-nothing/compound-receiver-changed-on-error",
			det(core.W{"note": "a failed decode must return no packets: the variable (and the result the caller kept from the earlier decode) must be unchanged"})) {
			return
		}
		// (2) a second successful decode into the same variable must not rewrite the result kept from the first
		if pan := guard(cloneBytes(good2)); pan != "" {
			cs.Fail("panic/CompoundPacket.Unmarshal", core.W{"input_hex": mon.Hex(good2, 300), "panic": pan})
			return
		}
		cs.Eval(1)
		if err != nil {
			return
		}
		want, werr, _ := gUnmarshal(cloneBytes(good2))
		cs.Check(mon.SemEqual(&first, snapshot), "context-free/earlier-result-overwritten", det(core.W{"note": "the packets returned by the first decode changed when the same variable was decoded into again"}))
		cs.Check(werr == nil && mon.SemEqual([]rtcp.Packet(cp), want), "exactly-once/compound-second-decode", det(core.W{"expected": vdump(want)}))
	})
	// neighbours replaced around a fixed frame: the frame's packet must not change
	c.Section("neighbours", c.N(60000, 1500000), func(cs *core.Case) {
		r := cs.R
		// target: the decoders that read "the rest of the buffer"
		k := []gen.Kind{gen.RR, gen.SR, gen.CCFB, gen.XR, gen.SDES, gen.BYE, gen.APP, gen.Raw}[cs.Idx%8]
		v := gen.Packet(r, k, gen.Opts{Small: true, NoBig: true})
		e, err := ref.Encode(v, ref.Lib)
		if err != nil {
			return
		}
		base, berr, bpan := gUnmarshal(cloneBytes(e.B))
		cs.Eval(1)
		if bpan != "" || berr != nil || len(base) != 1 {
			return
		}
		// capacity independence: the own decoder given frame[:n] of a larger array full of other
		// octets must behave exactly as on a slice of exactly n octets (for valid and damaged frames)
		for t := 0; t < 2; t++ {
			fr := e.B
			if t == 1 {
				if bad := malformedFromValid(cs, r); bad != nil {
					fr = bad
				}
			}
			kk := gen.RegisteredKind(fr[1], fr[0]&0x1F)
			if fr[1] == 205 && fr[0]&0x1F == 2 {
				kk = gen.SLI
			}
			exact, eerr, epan := gUnmarshalOwn(kk, cloneBytes(fr))
			big := append(append(make([]byte, 0, len(fr)+64), fr...), r.Bytes(64)...)
			if r.Bool() {
				if f2, ok := genFrame(r, false); ok {
					big = append(append(make([]byte, 0, len(fr)+len(f2.b)), fr...), f2.b...)
				}
			}
			roomy, rerr, rpan := gUnmarshalOwn(kk, big[:len(fr)])
			cs.Eval(2)
			cs.Count("capacity-independence/" + kk.String())
			if epan != "" || rpan != "" {
				cs.Fail("panic/Unmarshal", core.W{"input_hex": mon.Hex(fr, 300), "panic": epan + rpan})
				return
			}
			if (eerr == nil) != (rerr == nil) || (eerr == nil && !mon.SemEqual(exact, roomy)) {
				cs.Fail("context-free/capacity", core.W{"decoder": kk.String(), "input_hex": mon.Hex(fr, 300), "octets_beyond_len_hex": mon.Hex(big[len(fr):], 64),
					"exact_capacity": vdump(exact), "exact_error": errStr(eerr), "spare_capacity": vdump(roomy), "spare_error": errStr(rerr)})
				return
			}
		}
		for t := 0; t < 3; t++ {
			var before, after []frame
			for i := r.Intn(3); i > 0; i-- {
				if f, ok := genFrame(r, false); ok {
					before = append(before, f)
				}
			}
			for i := 1 + r.Intn(3); i > 0; i-- {
				if f, ok := genFrame(r, false); ok {
					after = append(after, f)
				}
			}
			in := append(append(concatFrames(before), e.B...), concatFrames(after)...)
			ps, err, pan := gUnmarshal(cloneBytes(in))
			cs.Eval(1)
			cs.Distinct(core.Digest([]byte("nb"), in))
			cs.Count("neighbours/" + k.String())
			if pan != "" {
				cs.Fail("panic/rtcp.Unmarshal", core.W{"input_hex": mon.Hex(in, 400), "panic": pan})
				return
			}
			if err != nil {
				continue // a neighbour frame rejected alone: not judged here
			}
			idx := len(before)
			if len(ps) != len(before)+1+len(after) || !mon.SemEqual(ps[idx], base[0]) {
				cs.Fail("context-free/neighbours", core.W{"input_hex": mon.Hex(in, 400), "frame_hex": mon.Hex(e.B, 128), "index": idx, "alone": vdump(base[0]), "decoded": vdump(ps)})
				return
			}
		}
	})
}
