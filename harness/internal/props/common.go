// Package props holds one monitor set per property (C01…C18).
package props

import (
	"fmt"

	"github.com/pion/rtcp"

	"verifharness/internal/core"
	"verifharness/internal/gen"
	"verifharness/internal/mon"
)

// gMarshal calls p.Marshal() under a panic guard.
func gMarshal(p rtcp.Packet) (b []byte, err error, pan string) {
	panicked, val, stack := core.Guard(func() { b, err = p.Marshal() })
	if panicked {
		return nil, nil, fmt.Sprintf("%v\n%s", val, stack)
	}
	return b, err, ""
}

// gUnmarshalOwn decodes b into a fresh zero value of kind k under a panic guard.
func gUnmarshalOwn(k gen.Kind, b []byte) (p rtcp.Packet, err error, pan string) {
	p = gen.New(k)
	panicked, val, stack := core.Guard(func() { err = p.Unmarshal(b) })
	if panicked {
		return nil, nil, fmt.Sprintf("%v\n%s", val, stack)
	}
	return p, err, ""
}

// gUnmarshal calls rtcp.Unmarshal under a panic guard.
func gUnmarshal(b []byte) (ps []rtcp.Packet, err error, pan string) {
	panicked, val, stack := core.Guard(func() { ps, err = rtcp.Unmarshal(b) })
	if panicked {
		return nil, nil, fmt.Sprintf("%v\n%s", val, stack)
	}
	return ps, err, ""
}

// gMarshalList calls rtcp.Marshal under a panic guard.
func gMarshalList(ps []rtcp.Packet) (b []byte, err error, pan string) {
	panicked, val, stack := core.Guard(func() { b, err = rtcp.Marshal(ps) })
	if panicked {
		return nil, nil, fmt.Sprintf("%v\n%s", val, stack)
	}
	return b, err, ""
}

func errStr(err error) string {
	if err == nil {
		return "<nil>"
	}
	return err.Error()
}

func cloneBytes(b []byte) []byte {
	if b == nil {
		return nil
	}
	out := make([]byte, len(b))
	copy(out, b)
	return out
}

func clonePacket(p rtcp.Packet) rtcp.Packet { return mon.Clone(p).(rtcp.Packet) }

func vdump(p any) string { return mon.Dump(p) }

// valueDigest digests a value via its dump (stable: the dump follows pointers).
func valueDigest(tag string, p any) uint64 { return core.DigestStr(tag, mon.Dump(p)) }

// firstDiff returns the first offset where a and b differ under mask (nil mask: all octets).
func firstDiff(a, b, mask []byte) int {
	n := len(a)
	if len(b) < n {
		n = len(b)
	}
	for i := 0; i < n; i++ {
		if a[i] != b[i] && (mask == nil || i >= len(mask) || mask[i] != 0) {
			return i
		}
	}
	if len(a) != len(b) {
		return n
	}
	return -1
}

// headerer is offered by most packet types.
type headerer interface{ Header() rtcp.Header }

// expectedPTCount is the registry of C07 plus the count/FMT/subtype rule of C05.
func expectedPTCount(p rtcp.Packet) (pt uint8, count uint8, ok bool) {
	switch v := p.(type) {
	case *rtcp.SenderReport:
		return 200, uint8(len(v.Reports)), true
	case *rtcp.ReceiverReport:
		return 201, uint8(len(v.Reports)), true
	case *rtcp.SourceDescription:
		return 202, uint8(len(v.Chunks)), true
	case *rtcp.Goodbye:
		return 203, uint8(len(v.Sources)), true
	case *rtcp.ApplicationDefined:
		return 204, v.SubType, true
	case *rtcp.TransportLayerNack:
		return 205, 1, true
	case *rtcp.RapidResynchronizationRequest:
		return 205, 5, true
	case *rtcp.CCFeedbackReport:
		return 205, 11, true
	case *rtcp.TransportLayerCC:
		return 205, 15, true
	case *rtcp.PictureLossIndication:
		return 206, 1, true
	case *rtcp.SliceLossIndication:
		return 206, 2, true
	case *rtcp.FullIntraRequest:
		return 206, 4, true
	case *rtcp.ReceiverEstimatedMaximumBitrate:
		return 206, 15, true
	case *rtcp.ExtendedReport:
		return 207, 0, true
	}
	return 0, 0, false
}
