package props

import (
	"bytes"
	"fmt"
	"strings"

	"github.com/pion/rtcp"

	"verifharness/internal/core"
	"verifharness/internal/gen"
	"verifharness/internal/mon"
	"verifharness/internal/ref"
)

func init() {
	core.Register(&core.PropDef{
		ID:        "C11",
		Run:       runC11,
		Technique: "runtime comparison of Validate/Marshal/Unmarshal/CNAME/DestinationSSRC/MarshalSize with an independent acceptor for the RFC 3550 compound grammar, exhaustively over member-kind sequences",
		Rule: "all sequences over 12 member kinds {SR, RR, RR with 32 reports (cannot marshal), SDES with CNAME first, SDES with CNAME in a later chunk/item, SDES without CNAME, SDES without chunks, BYE, PLI, APP, XR, Raw} of length 0..4 (quick) / 0..6 (thorough), each with freshly generated member contents, plus random sequences up to length 40; " +
			"non-trivial = every sequence; distinct by construction (each kind sequence is enumerated once) / by digest for random ones",
		Assumptions: []string{
			"reference grammar: (SR|RR) RR* SDES-containing-a-CNAME-item .*",
			"the Unmarshal aspect uses the reference encodings of the members (sequences containing the unmarshalable 32-report RR are skipped there)",
		},
		MinDistinctQuick: 22621, MinDistinctThorough: 3000000,
	})
}

const c11Kinds = 12

var c11KindNames = [...]string{"SR", "RR", "RR32", "SDES-cname-first", "SDES-cname-later", "SDES-no-cname", "SDES-no-chunks", "BYE", "PLI", "APP", "XR", "Raw"}

func c11Member(r *core.Rand, kind int) (p rtcp.Packet, cname string) {
	o := gen.Opts{Small: true, NoBig: true}
	switch kind {
	case 0:
		return gen.Packet(r, gen.SR, o), ""
	case 1:
		return gen.Packet(r, gen.RR, o), ""
	case 2:
		return &rtcp.ReceiverReport{SSRC: r.U32(), Reports: make([]rtcp.ReceptionReport, 32)}, ""
	case 3:
		t := gen.Text(r)
		s := &rtcp.SourceDescription{Chunks: []rtcp.SourceDescriptionChunk{{Source: r.U32(), Items: []rtcp.SourceDescriptionItem{{Type: rtcp.SDESCNAME, Text: t}}}}}
		if r.Bool() {
			s.Chunks[0].Items = append(s.Chunks[0].Items, rtcp.SourceDescriptionItem{Type: rtcp.SDESCNAME, Text: "second-" + gen.Text(r)[:0]})
		}
		if r.Bool() {
			s.Chunks = append(s.Chunks, rtcp.SourceDescriptionChunk{Source: r.U32(), Items: []rtcp.SourceDescriptionItem{{Type: rtcp.SDESCNAME, Text: "other"}}})
		}
		return s, t
	case 4:
		t := gen.Text(r)
		s := &rtcp.SourceDescription{}
		if r.Bool() {
			// later item of the first chunk, after 1..3 items of any other type; type 0 (the
			// end-of-list octet used as a type) makes the value impossible to marshal but does not
			// end the list for Validate or CNAME
			var items []rtcp.SourceDescriptionItem
			for n := 1 + r.Intn(3); n > 0; n-- {
				ty := rtcp.SDESType(2 + r.Intn(254))
				if r.Chance(1, 4) {
					ty = rtcp.SDESEnd
				}
				items = append(items, rtcp.SourceDescriptionItem{Type: ty, Text: gen.Text(r)})
			}
			items = append(items, rtcp.SourceDescriptionItem{Type: rtcp.SDESCNAME, Text: t})
			if r.Chance(1, 3) {
				items = append(items, rtcp.SourceDescriptionItem{Type: rtcp.SDESType(r.Pick(0, 1, 2, 8, 255)), Text: "after"})
			}
			s.Chunks = []rtcp.SourceDescriptionChunk{{Source: r.U32(), Items: items}}
			// and further chunks whose CNAME is their first item (the first CNAME item of the packet
			// is still the one above)
			for n := r.Intn(3); n > 0; n-- {
				lt := "later-chunk-" + gen.Text(r)
				if len(lt) > 255 {
					lt = lt[:255]
				}
				s.Chunks = append(s.Chunks, rtcp.SourceDescriptionChunk{Source: r.U32(), Items: []rtcp.SourceDescriptionItem{{Type: rtcp.SDESCNAME, Text: lt}}})
			}
		} else {
			// later chunk
			s.Chunks = []rtcp.SourceDescriptionChunk{{Source: r.U32()}, {Source: r.U32(), Items: []rtcp.SourceDescriptionItem{{Type: rtcp.SDESEmail, Text: "e"}}}, {Source: r.U32(), Items: []rtcp.SourceDescriptionItem{{Type: rtcp.SDESCNAME, Text: t}, {Type: rtcp.SDESCNAME, Text: "later"}}}}
		}
		return s, t
	case 5:
		ty := rtcp.SDESType(2 + r.Intn(254))
		if r.Chance(1, 6) {
			ty = rtcp.SDESEnd
		}
		s := &rtcp.SourceDescription{Chunks: []rtcp.SourceDescriptionChunk{{Source: r.U32(), Items: []rtcp.SourceDescriptionItem{{Type: ty, Text: gen.Text(r)}}}}}
		if r.Bool() {
			s.Chunks = append(s.Chunks, rtcp.SourceDescriptionChunk{Source: r.U32()})
		}
		return s, ""
	case 6:
		return &rtcp.SourceDescription{}, ""
	case 7:
		return gen.Packet(r, gen.BYE, o), ""
	case 8:
		return gen.Packet(r, gen.PLI, o), ""
	case 9:
		return gen.Packet(r, gen.APP, o), ""
	case 10:
		return gen.Packet(r, gen.XR, o), ""
	default:
		if r.Bool() {
			// a RawPacket whose octets are a complete SR, RR or SDES-with-CNAME: its kind is still Raw
			// (what a member IS is decided by its Go type, not by the octets a RawPacket carries)
			var v rtcp.Packet
			switch r.Intn(3) {
			case 0:
				v = gen.Packet(r, gen.SR, o)
			case 1:
				v = gen.Packet(r, gen.RR, o)
			default:
				v = &rtcp.SourceDescription{Chunks: []rtcp.SourceDescriptionChunk{{Source: r.U32(), Items: []rtcp.SourceDescriptionItem{{Type: rtcp.SDESCNAME, Text: "raw-cname"}}}}}
			}
			if e, err := ref.Encode(v, ref.Lib); err == nil {
				rp := rtcp.RawPacket(e.B)
				return &rp, ""
			}
		}
		return gen.RawValue(r), ""
	}
}

// c11RawRegistered reports a RawPacket member whose octets carry a registered packet type: the
// datagram made of the members' octets then decodes to different kinds than the value has, so the
// Unmarshal clause is not judged from the value's kinds.
func c11RawRegistered(cp rtcp.CompoundPacket) bool {
	for _, m := range cp {
		if rp, ok := m.(*rtcp.RawPacket); ok && len(*rp) >= 2 && (*rp)[1] >= 200 && (*rp)[1] <= 207 {
			return true
		}
	}
	return false
}

// c11HasType0 reports an SDES item whose type is 0: such a value cannot be marshalled.
func c11HasType0(p rtcp.Packet) bool {
	s, ok := p.(*rtcp.SourceDescription)
	if !ok {
		return false
	}
	for _, c := range s.Chunks {
		for _, it := range c.Items {
			if it.Type == rtcp.SDESEnd {
				return true
			}
		}
	}
	return false
}

// c11Accept is the independent acceptor; it returns the expected CNAME when accepted.
func c11Accept(kinds []int, cnames []string) (bool, string) {
	if len(kinds) == 0 {
		return false, ""
	}
	if kinds[0] > 2 {
		return false, ""
	}
	for i := 1; i < len(kinds); i++ {
		switch kinds[i] {
		case 1, 2:
			continue
		case 3, 4:
			return true, cnames[i]
		default:
			return false, ""
		}
	}
	return false, ""
}

func c11Judge(cs *core.Case, kinds []int) {
	r := cs.R
	var cp rtcp.CompoundPacket
	cnames := make([]string, len(kinds))
	names := make([]string, len(kinds))
	hasRR32 := false
	for i, k := range kinds {
		p, cn := c11Member(r, k)
		cp = append(cp, p)
		cnames[i] = cn
		names[i] = c11KindNames[k]
		if k == 2 || c11HasType0(p) {
			hasRR32 = true // cannot be marshalled
		}
	}
	// the SSRC of the leading report now and then reappears as the Source of an SDES chunk (as it
	// does in real compounds): of a later chunk, of the first, of all of them. Which item is "the
	// first CNAME item" does not depend on it.
	if len(cp) > 0 && r.Chance(1, 3) {
		var lead uint32
		switch v := cp[0].(type) {
		case *rtcp.SenderReport:
			lead = v.SSRC
		case *rtcp.ReceiverReport:
			lead = v.SSRC
		}
		mode := r.Intn(3)
		for i, m := range cp {
			// the receiver reports that follow the leading report come from the same sender (a report
			// on more than 31 sources is split this way), and the leading report is full
			if rr, ok := m.(*rtcp.ReceiverReport); ok && i > 0 && len(rr.Reports) <= 31 {
				rr.SSRC = lead
			}
			if i == 0 && r.Bool() {
				switch v := m.(type) {
				case *rtcp.SenderReport:
					for len(v.Reports) < 31 {
						v.Reports = append(v.Reports, gen.Report(r))
					}
				case *rtcp.ReceiverReport:
					for len(v.Reports) < 31 {
						v.Reports = append(v.Reports, gen.Report(r))
					}
				}
			}
			if s, ok := m.(*rtcp.SourceDescription); ok {
				for i := range s.Chunks {
					if mode == 2 || (mode == 0 && i == len(s.Chunks)-1) || (mode == 1 && i == 0) {
						s.Chunks[i].Source = lead
					}
				}
			}
		}
	}
	accepted, wantCNAME := c11Accept(kinds, cnames)
	seq := strings.Join(names, " ")
	det := func(extra core.W) func() core.W {
		return func() core.W {
			d := core.W{"sequence": seq, "accepted_by_reference_grammar": accepted, "value": vdump(&cp)}
			for k, v := range extra {
				d[k] = v
			}
			return d
		}
	}
	cs.Count(fmt.Sprintf("len-%d/accepted-%v", len(kinds), accepted))
	if cs.Idx%4001 == 0 {
		cs.Sample("sequence", func() any { return map[string]any{"sequence": seq, "accepted": accepted} })
	}
	// Validate
	var verr error
	if pan, v, st := core.Guard(func() { verr = cp.Validate() }); pan {
		cs.Fail("panic/Validate", det(core.W{"panic": v, "stack": st})())
		return
	}
	cs.Eval(1)
	cs.Check((verr == nil) == accepted, "validate", det(core.W{"validate_error": errStr(verr)}))
	// Marshal
	b, merr, mpan := gMarshal(&cp)
	cs.Eval(1)
	if mpan != "" {
		cs.Fail("panic/Marshal", det(core.W{"panic": mpan})())
		return
	}
	wantMarshal := accepted && !hasRR32
	cs.Check((merr == nil) == wantMarshal, "marshal", det(core.W{"marshal_error": errStr(merr)}))
	if merr != nil && len(b) != 0 {
		cs.Fail("marshal/error-with-bytes", det(core.W{"marshal_error": errStr(merr), "len": len(b)})())
	}
	if accepted {
		var cn string
		var cerr error
		if pan, v, st := core.Guard(func() { cn, cerr = cp.CNAME() }); pan {
			cs.Fail("panic/CNAME", det(core.W{"panic": v, "stack": st})())
			return
		}
		cs.Eval(1)
		cs.Check(cerr == nil && cn == wantCNAME, "cname", det(core.W{"cname": cn, "cname_error": errStr(cerr), "expected_cname": wantCNAME}))
		var ds, d0 []uint32
		core.Guard(func() { ds = cp.DestinationSSRC(); d0 = cp[0].DestinationSSRC() })
		cs.Eval(1)
		cs.Check(mon.SemEqual(ds, d0), "destination-ssrc", det(core.W{"got": ds, "first_member": d0}))
	}
	sum := 0
	var size int
	core.Guard(func() {
		for _, m := range cp {
			sum += m.MarshalSize()
		}
		size = cp.MarshalSize()
	})
	cs.Eval(1)
	cs.Check(size == sum, "marshal-size", det(core.W{"marshal_size": size, "sum_of_members": sum}))
	if merr == nil && wantMarshal {
		cs.Check(len(b) == size, "marshal-size/len", det(core.W{"marshal_size": size, "len": len(b)}))
	}
	// Unmarshal of the members' reference octets
	if !hasRR32 && !c11RawRegistered(cp) {
		e, rerr := ref.EncodeList([]rtcp.Packet(cp), ref.Lib)
		if rerr == nil {
			var dec rtcp.CompoundPacket
			var uerr error
			if pan, v, st := core.Guard(func() { uerr = dec.Unmarshal(cloneBytes(e.B)) }); pan {
				cs.Fail("panic/Unmarshal", det(core.W{"panic": v, "stack": st, "input_hex": mon.Hex(e.B, 200)})())
				return
			}
			cs.Eval(1)
			cs.Check((uerr == nil) == accepted, "unmarshal", det(core.W{"unmarshal_error": errStr(uerr), "input_hex": mon.Hex(e.B, 200)}))
			if uerr == nil && accepted {
				cn, cerr := dec.CNAME()
				cs.Check(cerr == nil && cn == wantCNAME, "unmarshal/cname", det(core.W{"cname": cn, "expected_cname": wantCNAME}))
			}
		}
	}
}

// c11NonCanonical checks the Unmarshal clause on member encodings the library's encoder never
// produces (surplus words inside a frame, padding shapes, zero-length BYE reasons, …): whenever
// rtcp.Unmarshal decodes the datagram, CompoundPacket.Unmarshal must succeed exactly when the
// decoded list validates, and then hold the same packets.
func c11NonCanonical(cs *core.Case) {
	r := cs.R
	var in []byte
	// compound-shaped prefix in 3/4 of the cases
	if r.Chance(3, 4) {
		for _, m := range *gen.CompoundValue(r, gen.Opts{Small: true, NoBig: true}) {
			e, err := ref.Encode(m, ref.Lib)
			if err != nil {
				return
			}
			f := e.B
			if r.Chance(1, 2) {
				f = softMutate(r, f)
			}
			in = append(in, f...)
		}
	}
	for i := r.Intn(3); i > 0; i-- {
		if f := corpusFrame(r); f != nil {
			in = append(in, f...)
		}
	}
	if len(in) == 0 {
		return
	}
	ps, err, pan := gUnmarshal(cloneBytes(in))
	cs.Eval(1)
	if pan != "" || err != nil {
		cs.Count("non-canonical/datagram-rejected")
		return
	}
	var verr error
	core.Guard(func() { verr = rtcp.CompoundPacket(ps).Validate() })
	var dec rtcp.CompoundPacket
	var uerr error
	if panicked, v, st := core.Guard(func() { uerr = dec.Unmarshal(cloneBytes(in)) }); panicked {
		cs.Fail("panic/Unmarshal", core.W{"input_hex": mon.Hex(in, 300), "panic": v, "stack": st})
		return
	}
	cs.Eval(2)
	cs.Distinct(core.Digest([]byte("nc"), in))
	cs.Count(fmt.Sprintf("non-canonical/validates-%v", verr == nil))
	det := func() core.W {
		return core.W{"input_hex": mon.Hex(in, 300), "datagram_decodes_to": vdump(ps), "validate_error": errStr(verr), "compound_unmarshal_error": errStr(uerr)}
	}
	if !cs.Check((uerr == nil) == (verr == nil), "unmarshal/non-canonical", det) {
		return
	}
	if uerr == nil {
		cs.Check(mon.SemEqual([]rtcp.Packet(dec), ps), "unmarshal/non-canonical-members", det)
	}
}

func runC11(c *core.Ctx) {
	c.Section("non-canonical", c.N(80000, 4000000), c11NonCanonical)
	// SDES members whose size is around the points where a 16-bit word count wraps (64 KiB, 256 KiB
	// and one word beyond): what Validate and CNAME say depends on the items, never on the size.
	// Such values cannot be marshalled, so only Validate / CNAME / MarshalSize are judged.
	sdesSizes := []int{65532, 65536, 65540, 131072, 262140, 262144, 262148, 262152, 524292}
	c.Section("oversize-sdes", uint64(len(sdesSizes))*2, func(cs *core.Case) {
		r := cs.R
		target := sdesSizes[cs.Idx/2]
		withCNAME := cs.Idx%2 == 0
		// one chunk: SSRC(4) + items (2+len each) + terminator and padding to a word boundary
		s := &rtcp.SourceDescription{Chunks: []rtcp.SourceDescriptionChunk{{Source: r.U32()}}}
		ch := &s.Chunks[0]
		cname := "oversize-" + gen.TextN(r, 8)
		if withCNAME {
			ch.Items = append(ch.Items, rtcp.SourceDescriptionItem{Type: rtcp.SDESNote, Text: "first"})
			ch.Items = append(ch.Items, rtcp.SourceDescriptionItem{Type: rtcp.SDESCNAME, Text: cname})
		}
		for s.MarshalSize() < target-300 {
			ch.Items = append(ch.Items, rtcp.SourceDescriptionItem{Type: rtcp.SDESType(2 + r.Intn(7)), Text: gen.TextN(r, 255)})
		}
		for n := 0; s.MarshalSize() != target && n < 600; n++ {
			// approach the target with short items; the last one is sized to land exactly
			left := target - s.MarshalSize()
			l := left - 2
			if l > 255 {
				l = 100
			}
			if l < 0 {
				break
			}
			ch.Items = append(ch.Items, rtcp.SourceDescriptionItem{Type: rtcp.SDESTool, Text: gen.TextN(r, l)})
			for s.MarshalSize() > target && len(ch.Items) > 0 && len(ch.Items[len(ch.Items)-1].Text) > 0 {
				it := &ch.Items[len(ch.Items)-1]
				it.Text = it.Text[:len(it.Text)-1]
			}
		}
		cp := rtcp.CompoundPacket{&rtcp.ReceiverReport{SSRC: r.U32()}, s}
		var verr, cerr error
		var cn string
		if pan, v, st := core.Guard(func() { verr = cp.Validate(); cn, cerr = cp.CNAME() }); pan {
			cs.Fail("panic/Validate", core.W{"sdes_marshal_size": s.MarshalSize(), "panic": v, "stack": st})
			return
		}
		cs.Eval(2)
		cs.DistinctN(1)
		cs.Count(fmt.Sprintf("oversize-sdes/%d", s.MarshalSize()))
		det := func() core.W {
			return core.W{"sdes_marshal_size": s.MarshalSize(), "items": len(ch.Items), "has_cname_item": withCNAME, "validate_error": errStr(verr), "cname": cn, "cname_error": errStr(cerr)}
		}
		cs.Check((verr == nil) == withCNAME, "validate", det)
		if withCNAME {
			cs.Check(cerr == nil && cn == cname, "cname", det)
		}
		cs.Check(cp.MarshalSize() == cp[0].MarshalSize()+s.MarshalSize(), "marshal-size", det)
	})
	// members whose encoding is as large as the 16-bit length field allows (and just below, and
	// around 64 KiB): Validate succeeds and every member marshals, so Marshal must succeed and its
	// result must be the members' encodings one after the other (after seed C11n)
	bigSizes := []int{65532, 65536, 65540, 131072, 262136, 262140, 262144}
	c.Section("big-members", uint64(len(bigSizes))*c.N(2, 8), func(cs *core.Case) {
		r := cs.R
		size := bigSizes[cs.Idx%uint64(len(bigSizes))]
		var cp rtcp.CompoundPacket
		where := int(cs.Idx / uint64(len(bigSizes)) % 2)
		bigRR := &rtcp.ReceiverReport{SSRC: r.U32(), ProfileExtensions: r.Bytes(size - 8)}
		sdes := &rtcp.SourceDescription{Chunks: []rtcp.SourceDescriptionChunk{{Source: r.U32(), Items: []rtcp.SourceDescriptionItem{{Type: rtcp.SDESCNAME, Text: "big-" + gen.TextN(r, 6)}}}}}
		if where == 0 {
			cp = rtcp.CompoundPacket{bigRR, sdes} // the leading report is the big one
		} else {
			cp = rtcp.CompoundPacket{&rtcp.SenderReport{SSRC: r.U32()}, bigRR, sdes, &rtcp.Goodbye{Sources: []uint32{r.U32()}}}
		}
		cs.DistinctN(1)
		cs.Count(fmt.Sprintf("big-members/%d", size))
		var want []byte
		for _, m := range cp {
			mb, merr, mpan := gMarshal(m)
			if mpan != "" || merr != nil {
				cs.Fail("big-members/member-refused", core.W{"member_size": size, "error": errStr(merr), "panic": mpan})
				return
			}
			want = append(want, mb...)
		}
		verr := cp.Validate()
		b, err, pan := gMarshal(&cp)
		cs.Eval(2)
		if pan != "" {
			cs.Fail("panic/Marshal", core.W{"member_size": size, "panic": pan})
			return
		}
		det := func() core.W {
			return core.W{"member_size": size, "big_member_at": where, "validate_error": errStr(verr), "marshal_error": errStr(err), "len": len(b), "expected_len": len(want)}
		}
		cs.Check(verr == nil, "validate", det)
		cs.Check(err == nil && bytes.Equal(b, want), "marshal", det)
		cs.Check(cp.MarshalSize() == len(want), "marshal-size", det)
	})
	// SDES members with more chunks than the 5-bit count can announce (hand-built; they cannot be
	// marshalled): what Validate and CNAME say depends on where a CNAME item is, never on the
	// number of chunks before it (after seed C11m).
	chunkCounts := []int{30, 31, 32, 33, 40, 62, 63, 64, 65, 255, 256, 257, 300}
	c.Section("many-chunks-sdes", uint64(len(chunkCounts))*8*c.N(4, 400), func(cs *core.Case) {
		r := cs.R
		n := chunkCounts[cs.Idx%uint64(len(chunkCounts))]
		pos := []int{-1, 0, 30, 31, 32, n - 1, r.Intn(n), n / 2}[cs.Idx/uint64(len(chunkCounts))%8]
		if pos >= n {
			pos = n - 1
		}
		s := &rtcp.SourceDescription{}
		cname := "many-" + gen.TextN(r, r.Intn(9))
		for i := 0; i < n; i++ {
			ch := rtcp.SourceDescriptionChunk{Source: r.U32()}
			for k := r.Intn(3); k > 0; k-- {
				ch.Items = append(ch.Items, rtcp.SourceDescriptionItem{Type: rtcp.SDESType(2 + r.Intn(7)), Text: gen.TextN(r, r.Intn(6))})
			}
			if i == pos {
				at := r.Intn(len(ch.Items) + 1)
				ch.Items = append(ch.Items[:at], append([]rtcp.SourceDescriptionItem{{Type: rtcp.SDESCNAME, Text: cname}}, ch.Items[at:]...)...)
			}
			s.Chunks = append(s.Chunks, ch)
		}
		cp := rtcp.CompoundPacket{&rtcp.ReceiverReport{SSRC: r.U32()}}
		if r.Bool() {
			cp = rtcp.CompoundPacket{&rtcp.SenderReport{SSRC: r.U32()}, &rtcp.ReceiverReport{SSRC: r.U32()}}
		}
		cp = append(cp, s)
		if r.Chance(1, 3) {
			cp = append(cp, &rtcp.Goodbye{Sources: []uint32{r.U32()}})
		}
		var verr, cerr error
		var cn string
		if pan, v, st := core.Guard(func() { verr = cp.Validate(); cn, cerr = cp.CNAME() }); pan {
			cs.Fail("panic/Validate", core.W{"chunks": n, "cname_in_chunk": pos, "panic": v, "stack": st})
			return
		}
		cs.Eval(2)
		cs.Distinct(core.DigestStr("many", fmt.Sprint(n, pos, len(cp)), cname))
		cs.Count(fmt.Sprintf("many-chunks-sdes/%d", n))
		det := func() core.W {
			return core.W{"chunks": n, "cname_in_chunk": pos, "members": len(cp), "validate_error": errStr(verr), "cname": cn, "cname_error": errStr(cerr)}
		}
		cs.Check((verr == nil) == (pos >= 0), "validate", det)
		if pos >= 0 {
			cs.Check(cerr == nil && cn == cname, "cname", det)
		}
		sum := 0
		for _, m := range cp {
			sum += m.MarshalSize()
		}
		cs.Check(cp.MarshalSize() == sum, "marshal-size", det)
		if n > 31 {
			b, merr, mpan := gMarshal(&cp)
			cs.Eval(1)
			if mpan != "" {
				cs.Fail("panic/Marshal", core.W{"chunks": n, "panic": mpan})
			} else {
				cs.Check(merr != nil && len(b) == 0, "marshal", det)
			}
		}
	})
	maxLen := 4
	if c.Thorough() {
		maxLen = 7
	}
	var total uint64
	pow := uint64(1)
	starts := []uint64{}
	for l := 0; l <= maxLen; l++ {
		starts = append(starts, total)
		total += pow
		pow *= c11Kinds
	}
	c.Exhaustive(fmt.Sprintf("all member-kind sequences of length 0..%d over 12 kinds", maxLen), total)
	c.Section("exhaustive", total, func(cs *core.Case) {
		l := 0
		for l+1 < len(starts) && cs.Idx >= starts[l+1] {
			l++
		}
		x := cs.Idx - starts[l]
		kinds := make([]int, l)
		for i := l - 1; i >= 0; i-- {
			kinds[i] = int(x % c11Kinds)
			x /= c11Kinds
		}
		cs.DistinctN(1)
		c11Judge(cs, kinds)
	})
	c.Section("random-long", c.N(40000, 10000000), func(cs *core.Case) {
		r := cs.R
		n := 1 + r.Intn(40)
		kinds := make([]int, n)
		for i := range kinds {
			kinds[i] = r.Intn(c11Kinds)
		}
		// bias towards accepted prefixes
		if r.Chance(2, 3) {
			kinds[0] = r.Intn(2)
			j := 1
			for ; j < n-1 && r.Chance(1, 2); j++ {
				kinds[j] = 1
			}
			if j < n {
				kinds[j] = r.Pick(3, 3, 4, 4, 5, 6, 7, 8)
			}
		}
		cs.Distinct(core.DigestStr(fmt.Sprint(kinds)))
		c11Judge(cs, kinds)
	})
}
