package props

import (
	"github.com/pion/rtcp"

	"verifharness/internal/core"
	"verifharness/internal/gen"
	"verifharness/internal/mon"
	"verifharness/internal/ref"
)

// FuzzSeeds returns reference encodings of every packet type (fixed PRNG) as corpus seeds
// for the native fuzz targets.
func FuzzSeeds() [][]byte {
	r := core.NewRand(20261004)
	var out [][]byte
	for rep := 0; rep < 6; rep++ {
		for k := gen.Kind(0); k < gen.Compound; k++ {
			v := gen.Packet(r, k, gen.Opts{Small: true, NoBig: true})
			if e, err := ref.Encode(v, ref.Lib); err == nil && len(e.B) <= 512 {
				out = append(out, e.B)
			}
		}
		c := gen.CompoundValue(r, gen.Opts{Small: true})
		if e, err := ref.Encode(c, ref.Lib); err == nil && len(e.B) <= 1500 {
			out = append(out, e.B)
		}
	}
	out = append(out, []byte{}, []byte{0x80, 201, 0, 0})
	return out
}

// FuzzC01 runs every decode entry point on data (panic and result-shape oracles; the
// allocation meter is left to the deterministic engine: fuzz workers run several goroutines).
func FuzzC01(cs *core.Case, data []byte) {
	was := cs.C.Race
	cs.C.Race = true // disables the allocation meter in c01Run
	items := make([]c01Item, 0, len(entryPoints))
	for i := range entryPoints {
		items = append(items, c01Item{i, data})
	}
	c01Run(cs, items)
	cs.C.Race = was
}

// FuzzC09 runs the re-encode fixpoint oracle.
func FuzzC09(cs *core.Case, data []byte) { c09Judge(cs, data) }

// FuzzC13 runs the independent-walk oracle when data is accepted as a TWCC packet.
func FuzzC13(cs *core.Case, data []byte) {
	got, err, pan := gUnmarshalOwn(gen.TWCC, cloneBytes(data))
	if pan != "" {
		cs.Fail("panic/Unmarshal", core.W{"input_hex": mon.Hex(data, 256), "panic": pan})
		return
	}
	if err != nil {
		return
	}
	c13Walk(cs, data, got.(*rtcp.TransportLayerCC), "own")
}

// FuzzC17 formats every packet decoded from data.
func FuzzC17(cs *core.Case, data []byte) {
	if len(data) > 2048 {
		return
	}
	ps, err, pan := gUnmarshal(cloneBytes(data))
	if pan != "" || err != nil {
		return
	}
	for _, p := range ps {
		c17Format(cs, p, mon.TypeName(p))
	}
	cp := rtcp.CompoundPacket(ps)
	c17Format(cs, &cp, "CompoundPacket(decoded list)")
}
