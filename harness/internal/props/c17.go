package props

import (
	"fmt"
	"math"
	"reflect"
	"strings"

	"github.com/pion/rtcp"

	"verifharness/internal/core"
	"verifharness/internal/gen"
	"verifharness/internal/mon"
	"verifharness/internal/ref"
)

func init() {
	core.Register(&core.PropDef{
		ID:        "C17",
		Run:       runC17,
		Technique: "runtime panic monitor on String()/fmt formatting, including a scan of fmt output for recovered String panics ('(PANIC=')",
		Rule: "every packet in the image of rtcp.Unmarshal over the manufactured accepted corpus (C09's), all D values of all 16 types (empty and maximal lists), compound packets mixing all types, all 2^24 REMB wire mantissa/exponent pairs decoded and formatted, all 256 values of PacketType, SDESType, BlockTypeType, TTLorHopLimitType, ECN, all 2^16 XR Chunk values; " +
			"each formatted by a direct String() call (where offered) and by fmt with %v, %+v and %s on pointer and value forms; non-trivial = a value was formatted; distinct by digest of (type, dump of value)",
		Assumptions: []string{
			"fmt recovers panics inside String/Error methods and prints '%!v(PANIC=String method: ...)'; the monitor therefore scans every fmt output for '(PANIC=' in addition to guarding direct String() calls",
			"datagrams are capped at 4 KiB for most cases because several String methods build their result quadratically; slowness is not a violation",
		},
		FuzzTarget: "FuzzString", FuzzExecs: 3000000,
		MinDistinctQuick: 100000, MinDistinctThorough: 5000000,
	})
}

// c17Format formats v every way the statement names.
func c17Format(cs *core.Case, v any, label string) {
	forms := []any{v}
	rv := reflect.ValueOf(v)
	if rv.Kind() == reflect.Ptr && !rv.IsNil() {
		forms = append(forms, rv.Elem().Interface())
	}
	for fi, f := range forms {
		if s, ok := f.(fmt.Stringer); ok {
			var out string
			panicked, val, stack := core.Guard(func() { out = s.String() })
			cs.Eval(1)
			if panicked {
				cs.Fail("panic/String/"+label, core.W{"value": vdump(v), "form": fi, "panic": fmt.Sprint(val), "stack": stack})
				return
			}
			_ = out
		}
		for _, verb := range []string{"%v", "%+v", "%s"} {
			var out string
			panicked, val, stack := core.Guard(func() { out = fmt.Sprintf(verb, f) })
			cs.Eval(1)
			if panicked {
				cs.Fail("panic/fmt/"+label, core.W{"value": vdump(v), "verb": verb, "form": fi, "panic": fmt.Sprint(val), "stack": stack})
				return
			}
			if i := strings.Index(out, "(PANIC="); i >= 0 {
				end := i + 200
				if end > len(out) {
					end = len(out)
				}
				cs.Fail("panic/fmt-recovered/"+label, core.W{"value": vdump(v), "verb": verb, "form": fi, "output_excerpt": out[i:end]})
				return
			}
		}
	}
}

func runC17(c *core.Ctx) {
	// (1) image of rtcp.Unmarshal over the accepted corpus
	c.Section("decoded", c.N(250000, 8000000), func(cs *core.Case) {
		in := corpusDatagram(cs.R)
		if len(in) == 0 || len(in) > 4096 && !cs.R.Chance(1, 50) {
			return
		}
		ps, err, pan := gUnmarshal(in)
		if pan != "" || err != nil {
			return
		}
		for _, p := range ps {
			cs.Distinct(valueDigest(mon.TypeName(p), p))
			cs.Count("decoded/" + mon.TypeName(p))
			c17Format(cs, p, mon.TypeName(p))
		}
		cp := rtcp.CompoundPacket(ps)
		c17Format(cs, &cp, "CompoundPacket(decoded list)")
		cs.Sample("decoded", func() any {
			return map[string]any{"input_hex": mon.Hex(in, 64), "string_of_first": fmt.Sprintf("%.200v", ps[0])}
		})
	})
	// (2) well-formed values, incl. compound packets mixing all types
	c.Section("values", c.N(150000, 5000000), func(cs *core.Case) {
		p := valueOf(cs, gen.Opts{AllowKF: true, Small: cs.R.Chance(3, 4), NoBig: true})
		cs.Distinct(valueDigest(mon.TypeName(p), p))
		cs.Count("value/" + mon.TypeName(p))
		c17Format(cs, p, mon.TypeName(p))
	})
	c.Section("compound-all-types", c.N(3000, 60000), func(cs *core.Case) {
		var cp rtcp.CompoundPacket
		for k := gen.Kind(0); k < gen.Compound; k++ {
			cp = append(cp, gen.Packet(cs.R, k, gen.Opts{Small: true, NoBig: true, AllowKF: true}))
		}
		cs.Distinct(valueDigest("compound-all", &cp))
		c17Format(cs, &cp, "CompoundPacket(all types)")
	})
	// (2b) every list of every type at every length 0..70 and around the powers of two up to 1025:
	// a formatter that sizes a buffer from the element count has its boundary somewhere here
	listLens := []int{}
	for n := 0; n <= 70; n++ {
		listLens = append(listLens, n)
	}
	listLens = append(listLens, 99, 100, 101, 127, 128, 129, 253, 254, 255, 256, 257, 511, 512, 513, 999, 1000, 1001, 1002, 1023, 1024, 1025) // powers of two and of ten (where an index gets one more digit); the formatters are quadratic, 10^4 elements cost tens of CPU-seconds
	c.Exhaustive("list lengths 0..70 and around 100, 128, 256, 512, 1000, 1024 for each of 22 lists", uint64(22*len(listLens)))
	c.Section("list-lengths", uint64(len(listLens)), func(cs *core.Case) {
		r := cs.R
		n := listLens[cs.Idx]
		small := func() rtcp.Packet {
			return gen.Packet(r, gen.Kind(r.Intn(int(gen.Compound))), gen.Opts{Small: true, NoBig: true})
		}
		var cp rtcp.CompoundPacket
		for i := 0; i < n; i++ {
			cp = append(cp, small())
		}
		sdesChunks := &rtcp.SourceDescription{}
		for i := 0; i < n; i++ {
			sdesChunks.Chunks = append(sdesChunks.Chunks, rtcp.SourceDescriptionChunk{Source: r.U32(), Items: []rtcp.SourceDescriptionItem{{Type: rtcp.SDESCNAME, Text: "c"}}})
		}
		sdesItems := &rtcp.SourceDescription{Chunks: []rtcp.SourceDescriptionChunk{{Source: r.U32()}}}
		for i := 0; i < n; i++ {
			sdesItems.Chunks[0].Items = append(sdesItems.Chunks[0].Items, rtcp.SourceDescriptionItem{Type: rtcp.SDESType(1 + i%8), Text: gen.Text(r)})
		}
		ccfbBlocks := &rtcp.CCFeedbackReport{}
		for i := 0; i < n; i++ {
			ccfbBlocks.ReportBlocks = append(ccfbBlocks.ReportBlocks, rtcp.CCFeedbackReportBlock{MediaSSRC: r.U32(), BeginSequence: r.U16(), MetricBlocks: make([]rtcp.CCFeedbackMetricBlock, r.Intn(3))})
		}
		ccfbMetrics := &rtcp.CCFeedbackReport{ReportBlocks: []rtcp.CCFeedbackReportBlock{{MediaSSRC: r.U32(), BeginSequence: uint16(r.Pick(0, 65535, 65536-n, int(r.U16()))), MetricBlocks: make([]rtcp.CCFeedbackMetricBlock, n)}}}
		xrBlocks := &rtcp.ExtendedReport{}
		for i := 0; i < n; i++ {
			xrBlocks.Reports = append(xrBlocks.Reports, gen.XRBlock(r, gen.XRKind(i%int(gen.NumXRKinds)), true))
		}
		dlrr := &rtcp.DLRRReportBlock{Reports: make([]rtcp.DLRRReport, n)}
		twcc := &rtcp.TransportLayerCC{Header: rtcp.Header{Count: 15, Type: 205}, PacketStatusCount: uint16(n)}
		for i := 0; i < n; i++ {
			if i%2 == 0 {
				twcc.PacketChunks = append(twcc.PacketChunks, &rtcp.RunLengthChunk{PacketStatusSymbol: uint16(r.Intn(4)), RunLength: r.U16() & 0x1FFF})
			} else {
				twcc.PacketChunks = append(twcc.PacketChunks, &rtcp.StatusVectorChunk{Type: 1, SymbolSize: uint16(r.Intn(2)), SymbolList: make([]uint16, r.Pick(0, 7, 14, n))})
			}
			twcc.RecvDeltas = append(twcc.RecvDeltas, &rtcp.RecvDelta{Type: uint16(1 + r.Intn(2)), Delta: int64(r.Intn(1000)) * 250})
		}
		vals := []rtcp.Packet{
			&cp,
			&rtcp.SenderReport{Reports: make([]rtcp.ReceptionReport, n)},
			&rtcp.SenderReport{ProfileExtensions: r.Bytes(n)},
			&rtcp.ReceiverReport{Reports: make([]rtcp.ReceptionReport, n)},
			&rtcp.ReceiverReport{ProfileExtensions: r.Bytes(n)},
			sdesChunks, sdesItems,
			&rtcp.Goodbye{Sources: make([]uint32, n)},
			&rtcp.Goodbye{Sources: []uint32{1}, Reason: gen.TextN(r, n)},
			&rtcp.ApplicationDefined{Name: "abcd", Data: r.Bytes(n)},
			&rtcp.TransportLayerNack{Nacks: make([]rtcp.NackPair, n)},
			&rtcp.SliceLossIndication{SLI: make([]rtcp.SLIEntry, n)},
			&rtcp.FullIntraRequest{FIR: make([]rtcp.FIREntry, n)},
			&rtcp.ReceiverEstimatedMaximumBitrate{Bitrate: 1e6, SSRCs: make([]uint32, n)},
			ccfbBlocks, ccfbMetrics, xrBlocks,
			&rtcp.ExtendedReport{Reports: []rtcp.ReportBlock{&rtcp.LossRLEReportBlock{Chunks: make([]rtcp.Chunk, n)}, &rtcp.DuplicateRLEReportBlock{Chunks: make([]rtcp.Chunk, n)}}},
			&rtcp.ExtendedReport{Reports: []rtcp.ReportBlock{&rtcp.PacketReceiptTimesReportBlock{ReceiptTime: make([]uint32, n)}, dlrr}},
			&rtcp.ExtendedReport{Reports: []rtcp.ReportBlock{&rtcp.UnknownReportBlock{XRHeader: rtcp.XRHeader{BlockType: 99}, Bytes: r.Bytes(n)}}},
			twcc,
		}
		raw := rtcp.RawPacket(r.Bytes(n))
		vals = append(vals, &raw)
		for _, p := range vals {
			cs.Distinct(valueDigest(mon.TypeName(p), p))
			cs.Count("list-length/" + mon.TypeName(p))
			c17Format(cs, p, mon.TypeName(p)+fmt.Sprintf(" (list of %d)", n))
		}
	})
	// (2b') lists whose elements all come from a small pool of patterned words (all zeros, all ones,
	// alternating bits — the bitmaps with the most runs —, single bits) at related positions
	// (contiguous, equal, distant, wrapping): a formatter that summarises runs or ranges sizes its
	// scratch space for the typical element (after seed C17m)
	c.Section("patterned-lists", c.N(30000, 3000000), func(cs *core.Case) {
		r := cs.R
		pool := []uint16{0xAAAA, 0x5555, 0xAAAA, 0x5555, 0xFFFF, 0x0000, 0x8000, 0x0001, 0xA5A5, 0x3333, 0xCCCC, 0x7FFE, 0xAAAB, 0xD555, r.U16()}
		if r.Bool() {
			pool = pool[:2+r.Intn(3)] // only the alternating ones
		}
		n := 1 + r.Intn(12)
		pid := r.B16()
		step := func() uint16 { return uint16(r.Pick(17, 17, 16, 18, 0, 1, 100, 32768, 65535, 65519, int(r.U16()))) }
		nack := &rtcp.TransportLayerNack{SenderSSRC: r.B32(), MediaSSRC: r.B32()}
		sli := &rtcp.SliceLossIndication{SenderSSRC: r.B32(), MediaSSRC: r.B32()}
		rle := &rtcp.LossRLEReportBlock{SSRC: r.B32(), BeginSeq: pid}
		dup := &rtcp.DuplicateRLEReportBlock{SSRC: r.B32(), BeginSeq: pid}
		twcc := &rtcp.TransportLayerCC{Header: rtcp.Header{Count: 15, Type: 205}, BaseSequenceNumber: pid, PacketStatusCount: uint16(14 * n)}
		for i := 0; i < n; i++ {
			w := pool[r.Intn(len(pool))]
			nack.Nacks = append(nack.Nacks, rtcp.NackPair{PacketID: pid, LostPackets: rtcp.PacketBitmap(w)})
			sli.SLI = append(sli.SLI, rtcp.SLIEntry{First: pid & 0x1FFF, Number: w & 0x1FFF, Picture: uint8(w & 0x3F)})
			rle.Chunks = append(rle.Chunks, rtcp.Chunk(w))
			dup.Chunks = append(dup.Chunks, rtcp.Chunk(w^0x8000))
			sv := &rtcp.StatusVectorChunk{Type: 1, SymbolSize: uint16(w >> 14 & 1)}
			for k := 0; k < 14>>sv.SymbolSize; k++ {
				sv.SymbolList = append(sv.SymbolList, w>>(13-uint(k)*(1+uint(sv.SymbolSize)))&(1<<(1+sv.SymbolSize)-1)&3)
			}
			twcc.PacketChunks = append(twcc.PacketChunks, sv)
			pid += step()
		}
		rle.EndSeq, dup.EndSeq = pid, pid
		for _, p := range []rtcp.Packet{nack, sli, &rtcp.ExtendedReport{Reports: []rtcp.ReportBlock{rle, dup}}, twcc} {
			cs.Distinct(valueDigest(mon.TypeName(p), p))
			cs.Count("patterned/" + mon.TypeName(p))
			c17Format(cs, p, mon.TypeName(p)+" (patterned list)")
		}
		// and as decoded from their encodings
		if b, err := nack.Marshal(); err == nil {
			var d rtcp.TransportLayerNack
			if d.Unmarshal(b) == nil {
				c17Format(cs, &d, "TransportLayerNack (patterned list, decoded)")
			}
		}
	})
	// (2b'') texts by character class: every octet length 0…255 filled entirely, half, or with a
	// few characters of one class (C1 controls — two octets that a cleaner may turn into one —,
	// ASCII controls, lone continuation and invalid lead octets, overlong forms, surrogates,
	// four-octet characters, combining marks, line separators, BOM, U+FFFD, format metacharacters,
	// bidi controls), as BYE reason and SDES texts, built and decoded: a formatter that cleans,
	// quotes or abbreviates a text computes lengths on one form and slices another (after C17n)
	textClasses := [][]string{
		{"\u0080", "\u0085", "\u008f", "\u0090", "\u009f"},
		{"\x00", "\x01", "\x07", "\x08", "\x1b", "\x1f", "\x7f"},
		{"\n", "\r", "\t", "\r\n"},
		{"\x80", "\xbf", "\x9f", "\xa0"},
		{"\xc0", "\xc1", "\xf5", "\xfe", "\xff", "\xc2", "\xe2\x82", "\xf0\x9f\x98"},
		{"\xc0\x80", "\xe0\x80\x80", "\xf0\x80\x80\x80", "\xc1\xbf"},
		{"\xed\xa0\x80", "\xed\xbf\xbf"},
		{"\U0001F600", "\U0010FFFF", "\U00010000"},
		{"\u0301", "\u0300", "\u20dd", "e\u0301"},
		{"\u2028", "\u2029", "\u00a0", "\u200b", "\u3000"},
		{"\ufeff", "\ufffd", "\ufffe", "\uffff"},
		{"%", "%s", "%!", "%d", "\\", "\"", "'", "`", "{", "}", "%%"},
		{"\u202e", "\u200f", "\u2066", "\u061c"},
		{"\u4e2d", "\uff21", "\u1100"},
	}
	c.Exhaustive("text classes x octet lengths 0..255 x 3 densities", uint64(len(textClasses))*256*3)
	c.Section("text-classes", uint64(len(textClasses))*256*3, func(cs *core.Case) {
		r := cs.R
		class := textClasses[cs.Idx%uint64(len(textClasses))]
		n := int(cs.Idx / uint64(len(textClasses)) % 256)
		density := int(cs.Idx / uint64(len(textClasses)) / 256)
		few := 1 + r.Intn(4)
		b := make([]byte, 0, n)
		for len(b) < n {
			ch := class[r.Intn(len(class))]
			use := false
			switch density {
			case 0:
				use = true
			case 1:
				use = r.Bool()
			default:
				use = few > 0 && r.Chance(1+few, 1+n-len(b))
			}
			if use && len(b)+len(ch) <= n {
				b = append(b, ch...)
				few--
			} else {
				b = append(b, byte('a'+r.Intn(26)))
			}
		}
		text := string(b)
		bye := &rtcp.Goodbye{Sources: []uint32{r.U32()}, Reason: text}
		sdes := &rtcp.SourceDescription{Chunks: []rtcp.SourceDescriptionChunk{{Source: r.U32(), Items: []rtcp.SourceDescriptionItem{
			{Type: rtcp.SDESCNAME, Text: text}, {Type: rtcp.SDESType(2 + r.Intn(7)), Text: text}}}}}
		cs.Distinct(core.DigestStr("text-class", text))
		cs.Count(fmt.Sprintf("text-classes/class-%d", cs.Idx%uint64(len(textClasses))))
		for _, p := range []rtcp.Packet{bye, sdes} {
			c17Format(cs, p, mon.TypeName(p)+fmt.Sprintf(" (text of %d octets)", n))
			if enc, err := p.Marshal(); err == nil {
				if ps, uerr := rtcp.Unmarshal(enc); uerr == nil {
					for _, d := range ps {
						c17Format(cs, d, mon.TypeName(d)+fmt.Sprintf(" (decoded, text of %d octets)", n))
					}
				}
			}
		}
	})
	// (2c) transport-cc feedback whose chunks describe about 2^16 packets (65535, exactly 65536, a
	// little more, twice that), hand-built and decoded: a formatter that summarises the chunks
	// meets every total a 16-bit conversion turns into 0 or 1
	c.Section("twcc-totals", c.N(400, 20000), func(cs *core.Case) {
		r := cs.R
		total := r.Pick(65527, 65528, 65534, 65535, 65536, 65536, 65537, 65542, 73719, 131071, 131072, 131073)
		var chunks []rtcp.PacketStatusChunk
		left := total
		sym := uint16(r.Pick(0, 0, 1, 2))
		for left > 0 {
			run := 8191
			if run > left {
				run = left
			}
			if left <= 14 && r.Bool() {
				chunks = append(chunks, &rtcp.StatusVectorChunk{Type: 1, SymbolSize: 0, SymbolList: make([]uint16, 14)})
				left -= 14
				continue
			}
			chunks = append(chunks, &rtcp.RunLengthChunk{PacketStatusSymbol: sym, RunLength: uint16(run)})
			left -= run
			if r.Chance(1, 6) {
				sym = uint16(r.Intn(3))
			}
		}
		count := uint16(r.Pick(65535, 65535, 65534, 57346, 60000, 1, total&0xFFFF))
		t := &rtcp.TransportLayerCC{Header: rtcp.Header{Count: 15, Type: 205, Length: uint16(4 + len(chunks)/2)}, SenderSSRC: r.U32(), MediaSSRC: r.U32(), BaseSequenceNumber: r.U16(), PacketStatusCount: count, PacketChunks: chunks}
		cs.Distinct(valueDigest("tot", t))
		cs.Count("twcc-totals/built")
		c17Format(cs, t, fmt.Sprintf("TransportLayerCC (chunks describe %d packets, status count %d)", total, count))
		// and the same chunks on the wire, decoded
		b := make([]byte, 20, 20+2*len(chunks)+4)
		copy(b[4:], r.Bytes(8))
		b[14], b[15] = byte(count>>8), byte(count)
		for _, ch := range chunks {
			w, err := ref.TWCCChunkWord(ch)
			if err != nil {
				return
			}
			b = append(b, byte(w>>8), byte(w))
		}
		for len(b)%4 != 0 {
			b = append(b, 0)
		}
		b[0], b[1] = 0x8F, 205
		gen.FitLength(b)
		if ps, err, pan := gUnmarshal(b); pan == "" && err == nil && len(ps) == 1 {
			cs.Count("twcc-totals/decoded")
			c17Format(cs, ps[0], fmt.Sprintf("decoded TransportLayerCC (chunks describe %d packets, status count %d)", total, count))
		}
	})
	// (3) empty and maximal lists, extreme field values
	c.Once("extremes", func(cs *core.Case) {
		max := func(k gen.Kind) rtcp.Packet {
			r := core.NewRand(99)
			for {
				p := gen.Packet(r, k, gen.Opts{})
				return p
			}
		}
		_ = max
		vals := []rtcp.Packet{
			&rtcp.SenderReport{}, &rtcp.ReceiverReport{}, &rtcp.SourceDescription{}, &rtcp.Goodbye{}, &rtcp.ApplicationDefined{}, &rtcp.TransportLayerNack{},
			&rtcp.RapidResynchronizationRequest{}, &rtcp.TransportLayerCC{}, &rtcp.CCFeedbackReport{}, &rtcp.PictureLossIndication{}, &rtcp.SliceLossIndication{},
			&rtcp.ReceiverEstimatedMaximumBitrate{}, &rtcp.FullIntraRequest{}, &rtcp.ExtendedReport{}, &rtcp.RawPacket{}, &rtcp.CompoundPacket{},
			&rtcp.SenderReport{Reports: make([]rtcp.ReceptionReport, 31), ProfileExtensions: make([]byte, 64)},
			&rtcp.ReceiverReport{Reports: make([]rtcp.ReceptionReport, 31)},
			&rtcp.TransportLayerNack{Nacks: make([]rtcp.NackPair, 253)},
			&rtcp.SliceLossIndication{SLI: make([]rtcp.SLIEntry, 253)},
			&rtcp.FullIntraRequest{FIR: make([]rtcp.FIREntry, 256)},
			&rtcp.ReceiverEstimatedMaximumBitrate{SSRCs: make([]uint32, 255)},
			&rtcp.SourceDescription{Chunks: []rtcp.SourceDescriptionChunk{{Items: []rtcp.SourceDescriptionItem{{Type: 0}, {Type: 255, Text: "\xff\x00%!v(PANIC"}}}}},
			&rtcp.ExtendedReport{Reports: []rtcp.ReportBlock{&rtcp.StatisticsSummaryReportBlock{TTLorHopLimit: 255}, &rtcp.UnknownReportBlock{XRHeader: rtcp.XRHeader{BlockType: 255}}}},
		}
		for _, f := range []float32{0, 1, 999, 1000, 1e3, 1e6, 1e9, 1e12, 1e15, 1e18, 9.99e20, 1e21, 1.1e21, 2.4e24, 3.4e38, float32(0x3FFFF) * (1 << 63)} {
			vals = append(vals, &rtcp.ReceiverEstimatedMaximumBitrate{Bitrate: f})
		}
		// the 64 float32 values on either side of every power of ten from 1e-3 to 1e38 (where a
		// formatter that scales by thousands changes unit or rounds up to the next one), and of
		// every power of two from 2^-10 to 2^127
		near := func(x float64) {
			f := float32(x)
			if math.IsInf(float64(f), 0) {
				f = math.MaxFloat32
			}
			bits := math.Float32bits(f)
			for d := -64; d <= 64; d++ {
				bb := uint32(int64(bits) + int64(d))
				if bb >= 0x7F800000 {
					continue
				}
				vals = append(vals, &rtcp.ReceiverEstimatedMaximumBitrate{Bitrate: math.Float32frombits(bb)})
			}
		}
		for e := -3; e <= 38; e++ {
			near(math.Pow(10, float64(e)))
			near(0.999995 * math.Pow(10, float64(e)))
			near(0.99995 * math.Pow(10, float64(e)))
			near(0.9995 * math.Pow(10, float64(e)))
		}
		for e := -10; e <= 127; e++ {
			near(math.Ldexp(1, e))
		}
		for _, p := range vals {
			cs.Distinct(valueDigest(mon.TypeName(p), p))
			c17Format(cs, p, mon.TypeName(p))
		}
	})
	// (4) all 2^24 REMB wire pairs, decoded then formatted (blocks of 2^12 mantissas)
	c.Exhaustive("REMB: all 64 x 2^18 wire (exponent, mantissa) pairs decoded and formatted", 1<<24)
	c.Section("remb-wire", 1<<12, func(cs *core.Case) {
		b := []byte{0x8F, 206, 0, 4, 0, 0, 0, 1, 0, 0, 0, 0, 'R', 'E', 'M', 'B', 0, 0, 0, 0}
		for i := uint32(0); i < 1<<12; i++ {
			w := uint32(cs.Idx)<<12 | i
			b[17], b[18], b[19] = byte(w>>16), byte(w>>8), byte(w)
			var p rtcp.ReceiverEstimatedMaximumBitrate
			if err := p.Unmarshal(b); err != nil {
				cs.Fail("remb-wire/rejected", core.W{"input_hex": mon.Hex(b, 20), "error": err.Error()})
				return
			}
			var out string
			panicked, val, stack := core.Guard(func() { out = p.String() })
			if panicked {
				cs.Fail("panic/String/ReceiverEstimatedMaximumBitrate", core.W{"input_hex": mon.Hex(b, 20), "bitrate": vdump(p.Bitrate), "panic": fmt.Sprint(val), "stack": stack})
				return
			}
			if i%512 == 0 {
				out = fmt.Sprintf("%v %+v", &p, p)
				if strings.Contains(out, "(PANIC=") {
					cs.Fail("panic/fmt-recovered/ReceiverEstimatedMaximumBitrate", core.W{"input_hex": mon.Hex(b, 20), "output": out})
					return
				}
			}
		}
		cs.Eval(1 << 12)
		cs.DistinctN(1 << 12)
	})
	// (5) enum-like helper types, all values
	c.Exhaustive("all 256 values of PacketType, SDESType, BlockTypeType, TTLorHopLimitType, TypeSpecificField, ECN, ChunkType; all 2^16 XR Chunk values", 7*256+65536)
	c.Section("enums", 256, func(cs *core.Case) {
		v := uint8(cs.Idx)
		for _, e := range []any{rtcp.PacketType(v), rtcp.SDESType(v), rtcp.BlockTypeType(v), rtcp.TTLorHopLimitType(v), rtcp.TypeSpecificField(v), rtcp.ECN(v), rtcp.ChunkType(v)} {
			c17Format(cs, e, fmt.Sprintf("%T", e))
		}
		cs.DistinctN(7)
		for lo := 0; lo < 256; lo++ {
			ch := rtcp.Chunk(uint16(v)<<8 | uint16(lo))
			var out string
			panicked, val, stack := core.Guard(func() { out = ch.String() + fmt.Sprintf("%v", ch) })
			cs.Eval(2)
			if panicked || strings.Contains(out, "(PANIC=") {
				cs.Fail("panic/String/Chunk", core.W{"chunk": uint16(ch), "panic": fmt.Sprint(val), "stack": stack, "output": out})
				return
			}
		}
		cs.DistinctN(256)
		// headers and sub-structures with this octet everywhere
		c17Format(cs, rtcp.Header{Padding: v&1 == 1, Count: v, Type: rtcp.PacketType(v), Length: uint16(v) << 8}, "Header")
		c17Format(cs, rtcp.SourceDescriptionItem{Type: rtcp.SDESType(v), Text: string([]byte{v, v})}, "SourceDescriptionItem")
		c17Format(cs, rtcp.XRHeader{BlockType: rtcp.BlockTypeType(v), TypeSpecific: rtcp.TypeSpecificField(v)}, "XRHeader")
		c17Format(cs, rtcp.CCFeedbackReportBlock{MediaSSRC: uint32(v), BeginSequence: 65535, MetricBlocks: make([]rtcp.CCFeedbackMetricBlock, int(v)%5)}, "CCFeedbackReportBlock")
		c17Format(cs, &rtcp.RecvDelta{Type: uint16(v), Delta: int64(v) * 250}, "RecvDelta")
		c17Format(cs, &rtcp.RunLengthChunk{PacketStatusSymbol: uint16(v), RunLength: uint16(v) << 5}, "RunLengthChunk")
		c17Format(cs, &rtcp.StatusVectorChunk{SymbolSize: uint16(v), SymbolList: make([]uint16, int(v)%15)}, "StatusVectorChunk")
		c17Format(cs, rtcp.NackPair{PacketID: uint16(v) << 8, LostPackets: rtcp.PacketBitmap(v)}, "NackPair")
	})
}
