package props

import (
	"github.com/pion/rtcp"

	"verifharness/internal/core"
	"verifharness/internal/gen"
	"verifharness/internal/mon"
)

func init() {
	core.Register(&core.PropDef{
		ID:        "C05",
		Run:       runC05,
		Technique: "runtime framing-invariant monitor on Marshal output (size, alignment, header word, accessors) over generated values",
		Rule: "values of all 16 packet types from the seeded boundary-biased generator over D widened with every unaligned variable part " +
			"(SR/RR extension lengths 0..9, texts mod 4, APP data mod 4, odd CCFB n, TWCC delta totals mod 4, odd XR chunk counts) and list-length boundaries; " +
			"a case is judged when Marshal returns nil error; non-trivial = Marshal succeeded with at least 8 octets; distinct by digest of (type, output octets)",
		Assumptions: []string{
			"the generator's domain D (DESIGN.md section 3) is my reading of 'well-formed'",
			"TWCC and RawPacket values are generated with a caller-supplied header consistent with the content (the statement's precondition)",
			"encodings above 262144 octets are outside the statement and not generated",
		},
		MinDistinctQuick: 20000, MinDistinctThorough: 500000,
	})
}

func c05Check(cs *core.Case, p rtcp.Packet, where string) {
	k := gen.KindOf(p)
	var sizeBefore int
	if pan, v, st := core.Guard(func() { sizeBefore = p.MarshalSize() }); pan {
		cs.Fail("panic/MarshalSize", core.W{"value": vdump(p), "panic": v, "stack": st})
		return
	}
	b, err, pan := gMarshal(p)
	cs.Eval(1)
	if pan != "" {
		cs.Fail("panic/Marshal", core.W{"value": vdump(p), "panic": pan})
		return
	}
	if err != nil {
		cs.Count("marshal-error/" + k.String())
		return
	}
	if len(b) > 262144 {
		return
	}
	sizeAfter := p.MarshalSize()
	cs.Count("judged/" + k.String())
	if len(b) >= 8 {
		cs.Distinct(core.Digest([]byte(k.String()), b))
	}
	cs.Sample(where+"/"+k.String(), func() any {
		return map[string]any{"value": vdump(p), "marshal_hex": mon.Hex(b, 64), "len": len(b), "marshal_size": sizeAfter}
	})
	// known finding KF5 shows as an output that is not a whole number of words (and everything that
	// follows from it); a packet with unaligned blocks whose sizes happen to add up to whole words
	// is framed correctly by the unchanged library and gets no tolerance
	kf5 := gen.Contains(p, gen.IsKF5) && len(b)%4 != 0
	w := func(extra core.W) func() core.W {
		return func() core.W {
			d := core.W{"type": k.String(), "value": vdump(p), "marshal_hex": mon.Hex(b, 128), "len": len(b), "marshal_size_before": sizeBefore, "marshal_size_after": sizeAfter}
			for kk, vv := range extra {
				d[kk] = vv
			}
			return d
		}
	}
	kfs := []string{}
	if kf5 {
		kfs = append(kfs, "KF5")
	}
	cs.Check(sizeBefore == len(b) && sizeAfter == len(b), "size/"+k.String(), w(nil), kfs...)
	cs.Check(len(b)%4 == 0, "aligned/"+k.String(), w(nil), kfs...)
	if k == gen.Compound {
		sum := 0
		for _, m := range *(p.(*rtcp.CompoundPacket)) {
			sum += m.MarshalSize()
		}
		cs.Check(sum == sizeAfter, "compound-sum", w(core.W{"sum_members": sum}), kfs...)
		return
	}
	if len(b) < 4 {
		cs.Fail("short/"+k.String(), w(nil)())
		return
	}
	cs.Check(b[0]>>6 == 2, "version/"+k.String(), w(nil))
	lengthField := int(b[2])<<8 | int(b[3])
	cs.Check(len(b)%4 == 0 && lengthField == len(b)/4-1, "length/"+k.String(), w(core.W{"length_field": lengthField}), kfs...)
	if pt, cnt, ok := expectedPTCount(p); ok {
		if k == gen.SLI {
			cs.Check(b[1] == pt, "pt/"+k.String(), w(core.W{"expected_pt": pt}), "KF1")
		} else {
			cs.Check(b[1] == pt, "pt/"+k.String(), w(core.W{"expected_pt": pt}))
		}
		cs.Check(b[0]&0x1F == cnt, "count/"+k.String(), w(core.W{"expected_count": cnt}))
	}
	// accessors
	var hw rtcp.Header
	hw.Padding = b[0]>>5&1 == 1
	hw.Count = b[0] & 0x1F
	hw.Type = rtcp.PacketType(b[1])
	hw.Length = uint16(lengthField)
	if h, ok := p.(headerer); ok {
		var got rtcp.Header
		if pan, v, st := core.Guard(func() { got = h.Header() }); pan {
			cs.Fail("panic/Header", core.W{"value": vdump(p), "panic": v, "stack": st})
		} else {
			cs.Eval(1)
			cs.Check(got == hw, "accessor/Header/"+k.String(), w(core.W{"header_accessor": vdump(got), "header_wire": vdump(hw)}), kfs...)
		}
	}
	switch v := p.(type) {
	case *rtcp.CCFeedbackReport:
		cs.Eval(1)
		cs.Check(v.Len() == len(b), "accessor/Len/"+k.String(), w(core.W{"Len": v.Len()}))
	case *rtcp.TransportLayerCC:
		cs.Eval(1)
		cs.Check(int(v.Len()) == len(b), "accessor/Len/"+k.String(), w(core.W{"Len": v.Len()}))
		cs.Check(v.Header == hw, "accessor/HeaderField/"+k.String(), w(core.W{"header_field": vdump(v.Header), "header_wire": vdump(hw)}))
	}
}

func runC05(c *core.Ctx) {
	o := gen.Opts{AllowKF: true, UnalignedSRExt: true}
	c.Section("values", c.N(1500000, 80000000), func(cs *core.Case) {
		// the value stream of C02 / C03: an eighth of the values have been used and then edited in
		// place (a size remembered from the earlier use is stale), a quarter have tied fields
		c05Check(cs, valueOf(cs, o), "value")
	})
	// values whose encoding has 64 KiB or more (where 16-bit byte arithmetic wraps)
	c.Section("big-values", c.N(400, 8000), func(cs *core.Case) {
		c05Check(cs, gen.BigPacket(cs.R), "big")
	})
	// packets obtained by decoding accepted (also non-canonical) datagrams: their slices alias the
	// input, their lists have the lengths the wire dictated
	c.Section("decoded", c.N(150000, 6000000), func(cs *core.Case) {
		in := corpusDatagram(cs.R)
		if len(in) == 0 {
			return
		}
		ps, err, pan := gUnmarshal(in)
		if pan != "" || err != nil {
			return
		}
		for _, p := range ps {
			if t, ok := p.(*rtcp.TransportLayerCC); ok && !twccHeaderConsistent(t) {
				continue // the statement's precondition for caller-supplied headers
			}
			c05Check(cs, p, "decoded")
		}
	})
	// every residue mod 4 of every variable part, systematically
	c.Section("residues", c.N(4000, 40000), func(cs *core.Case) {
		r := cs.R
		res := int(cs.Idx % 10)
		pkts := []rtcp.Packet{
			&rtcp.SenderReport{SSRC: r.U32(), Reports: make([]rtcp.ReceptionReport, r.Intn(3)), ProfileExtensions: r.Bytes(res)},
			&rtcp.ReceiverReport{SSRC: r.U32(), Reports: make([]rtcp.ReceptionReport, r.Intn(3)), ProfileExtensions: r.Bytes(res)},
			&rtcp.SourceDescription{Chunks: []rtcp.SourceDescriptionChunk{{Source: r.U32(), Items: []rtcp.SourceDescriptionItem{{Type: rtcp.SDESCNAME, Text: string(r.Bytes(res))}}}}},
			&rtcp.Goodbye{Sources: make([]uint32, r.Intn(3)), Reason: string(r.Bytes(res))},
			&rtcp.ApplicationDefined{SubType: uint8(res), Name: "abcd", Data: r.Bytes(res)},
		}
		// CCFB with `res` metric blocks, TWCC with `res` small deltas
		cc := &rtcp.CCFeedbackReport{ReportBlocks: []rtcp.CCFeedbackReportBlock{{MediaSSRC: r.U32(), BeginSequence: 100, MetricBlocks: make([]rtcp.CCFeedbackMetricBlock, res)}}}
		pkts = append(pkts, cc)
		m := &gen.TWCCModel{Sender: r.U32(), Media: r.U32(), Base: r.U16(), RefTime: r.U32() & 0xFFFFFF}
		for i := 0; i < res; i++ {
			m.Status = append(m.Status, uint8(1+r.Intn(2)))
			m.Deltas = append(m.Deltas, int64(r.Intn(200)))
		}
		pkts = append(pkts, m.Value(m.Chunks(r, gen.ChunkOpts{})))
		x := &rtcp.ExtendedReport{SenderSSRC: r.U32(), Reports: []rtcp.ReportBlock{
			&rtcp.LossRLEReportBlock{Chunks: make([]rtcp.Chunk, res)},
			&rtcp.UnknownReportBlock{XRHeader: rtcp.XRHeader{BlockType: 77}, Bytes: r.Bytes(4 * res)}}}
		pkts = append(pkts, x)
		for _, p := range pkts {
			c05Check(cs, p, "residue")
		}
	})
	c.Section("compound", c.N(40000, 3000000), func(cs *core.Case) {
		p := gen.CompoundValue(cs.R, o)
		c05Check(cs, p, "compound")
		for _, m := range *p {
			c05Check(cs, m, "member")
		}
	})
	c.KnownWitness("KF1", func() (bool, string) {
		b, err := (&rtcp.SliceLossIndication{SLI: []rtcp.SLIEntry{{First: 1, Number: 2, Picture: 3}}}).Marshal()
		return err == nil && len(b) > 1 && b[1] != 206, "SliceLossIndication.Marshal emits PT " + itoa(int(b[1])) + " (RFC 4585: 206)"
	})
	c.KnownWitness("KF5", func() (bool, string) {
		x := &rtcp.ExtendedReport{Reports: []rtcp.ReportBlock{&rtcp.LossRLEReportBlock{Chunks: []rtcp.Chunk{1}}}}
		b, err := x.Marshal()
		return err == nil && len(b)%4 != 0, "XR with one odd-chunk-count RLE block marshals to " + itoa(len(b)) + " octets (not a multiple of 4)"
	})
}

func itoa(i int) string {
	if i == 0 {
		return "0"
	}
	neg := i < 0
	if neg {
		i = -i
	}
	var b [20]byte
	n := len(b)
	for i > 0 {
		n--
		b[n] = byte('0' + i%10)
		i /= 10
	}
	if neg {
		n--
		b[n] = '-'
	}
	return string(b[n:])
}
