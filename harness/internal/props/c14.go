package props

import (
	"fmt"
	"math"
	"runtime"
	"sync"

	"github.com/pion/rtcp"

	"verifharness/internal/core"
	"verifharness/internal/gen"
	"verifharness/internal/mon"
	"verifharness/internal/ref"
)

func init() {
	core.Register(&core.PropDef{
		ID:        "C14",
		Run:       runC14,
		Technique: "runtime comparison of REMB decode/encode with an exact integer reference; exhaustive enumeration of the 2^24 wire pairs (and, thorough, of all 2^31 non-negative float32 values) with a monotonicity monitor between consecutive bit patterns",
		Rule: "decode: all 64 x 2^18 wire (exponent, mantissa) pairs; encode: float32 bitrates compared octet-for-octet (17..19) with the integer reference (minimal exponent, floor mantissa, saturation at 0x3FFFF x 2^63), with decode(encode(x)) <= x, shortfall < 2^exp, equality iff representable, monotone in x; " +
			"quick: dense neighbourhoods (+-2048 ulp) of every power of two, every mantissa-carry boundary, the saturation point, subnormals, +-0, plus 2^21 stride samples of the whole range; thorough: every non-negative finite float32; " +
			"negatives rejected; SSRC lists of every length 0..255; non-trivial = every case; distinct by construction (enumerated bit patterns)",
		Assumptions: []string{
			"the fast integer reference (bit operations on the float32 pattern) is cross-checked against a math/big reference on sampled values at start-up",
			"-0 is not negative: it encodes as 0",
		},
		MinDistinctQuick: 1 << 24, MinDistinctThorough: 1 << 31,
	})
}

// rembRefFast is the integer reference on the float32 bit pattern (x finite, >= 0).
func rembRefFast(bits uint32) (exp uint8, mant uint32) {
	E := int(bits>>23&0xFF) - 127
	if bits>>23&0xFF == 0 || E < 0 {
		return 0, 0 // zero, subnormal or below 1
	}
	M := bits&0x7FFFFF | 0x800000 // value = M * 2^(E-23)
	if E >= 81 {
		return 63, 0x3FFFF
	}
	if E <= 17 {
		return 0, M >> uint(23-E)
	}
	return uint8(E - 17), M >> 6
}

var rembBuf [20]byte

// c14Encode judges the library's encoding of one bit pattern; returns the encoded value.
func c14Encode(cs *core.Case, bits uint32, p *rtcp.ReceiverEstimatedMaximumBitrate) (val float64, ok bool) {
	x := math.Float32frombits(bits)
	p.Bitrate = x
	n, err := p.MarshalTo(rembBuf[:])
	if err != nil || n != 20 {
		cs.Fail("encode/rejected", core.W{"bitrate": vdump(x), "error": errStr(err), "n": n})
		return 0, false
	}
	ge, gm := rembBuf[17]>>2, uint32(rembBuf[17]&3)<<16|uint32(rembBuf[18])<<8|uint32(rembBuf[19])
	we, wm := rembRefFast(bits)
	if ge != we || gm != wm {
		cs.Fail("encode/reference", core.W{"bitrate": vdump(x), "got_exp": ge, "got_mantissa": gm, "expected_exp": we, "expected_mantissa": wm, "octets_17_19": mon.Hex(rembBuf[17:20], 3)})
		return 0, false
	}
	// composite, from the library's own octets
	y := math.Ldexp(float64(gm), int(ge))
	xf := float64(x)
	const sat = 0x3FFFF * (1 << 63)
	switch {
	case xf >= sat:
		if y != sat {
			cs.Fail("encode/saturation", core.W{"bitrate": vdump(x), "encoded_value": y})
			return 0, false
		}
	case y > xf || xf-y >= math.Ldexp(1, int(ge)):
		cs.Fail("encode/floor", core.W{"bitrate": vdump(x), "encoded_value": y, "exp": ge})
		return 0, false
	}
	return y, true
}

func runC14(c *core.Ctx) {
	if c.Shard == 0 && c.Replay == nil {
		// oracle self-check: fast reference vs math/big reference
		r := core.NewRand(12345)
		for i := 0; i < 200000; i++ {
			bits := r.U32() & 0x7FFFFFFF
			if i%3 == 0 {
				bits = uint32(127+r.Intn(90))<<23 + uint32(r.Intn(64)) - 32
			}
			if bits>>23&0xFF == 0xFF {
				continue
			}
			e1, m1 := rembRefFast(bits)
			e2, m2, ok := ref.REMBEncode(math.Float32frombits(bits))
			if !ok || e1 != e2 || m1 != m2 {
				c.Res.HarnessErrors = append(c.Res.HarnessErrors, fmt.Sprintf("oracle self-check: fast and big references disagree on %#x: (%d,%d) vs (%d,%d)", bits, e1, m1, e2, m2))
				return
			}
		}
		c.Note("oracle self-check: fast integer reference agrees with the math/big reference on 200000 sampled bit patterns")
	}
	// (1) decode: all 2^24 wire pairs
	c.Exhaustive("decode: all 64 x 2^18 wire (exponent, mantissa) pairs", 1<<24)
	c.Section("decode-all", 1<<12, func(cs *core.Case) {
		// four frames that differ in the SSRC entries that follow the bitrate word (none; one with all
		// bits set; two, the first with only its top bit set; one with all but the top bit): the
		// bitrate does not depend on what follows it
		frames := [][]byte{
			{0x8F, 206, 0, 4, 0, 0, 0, 1, 0, 0, 0, 0, 'R', 'E', 'M', 'B', 0, 0, 0, 0},
			{0x8F, 206, 0, 5, 0, 0, 0, 1, 0, 0, 0, 0, 'R', 'E', 'M', 'B', 1, 0, 0, 0, 0xFF, 0xFF, 0xFF, 0xFF},
			{0x8F, 206, 0, 6, 0, 0, 0, 1, 0, 0, 0, 0, 'R', 'E', 'M', 'B', 2, 0, 0, 0, 0x80, 0, 0, 0, 0, 0, 0, 1},
			{0x8F, 206, 0, 5, 0, 0, 0, 1, 0, 0, 0, 0, 'R', 'E', 'M', 'B', 1, 0, 0, 0, 0x7F, 0xFF, 0xFF, 0xFF},
		}
		var p rtcp.ReceiverEstimatedMaximumBitrate
		for i := uint32(0); i < 1<<12; i++ {
			w := uint32(cs.Idx)<<12 | i
			b := frames[(w^w>>9^w>>18)&3] // the exponent takes part: the 64 words with mantissa 0 meet all four frames
			nssrc := int(b[16])
			b[17], b[18], b[19] = byte(w>>16), byte(w>>8), byte(w)
			// the receiver is a used one: it holds a bitrate and sources that are not on the wire
			p.SenderSSRC, p.Bitrate, p.SSRCs = 0xDEADBEEF, math.Float32frombits(0x4B2D2D2D), append(p.SSRCs[:0], 0xA5A5A5A5, 0x5A5A5A5A)
			if err := p.Unmarshal(b); err != nil {
				cs.Fail("decode/rejected", core.W{"input_hex": mon.Hex(b, 20), "error": err.Error()})
				return
			}
			e, m := uint8(w>>18), w&0x3FFFF
			want := ref.REMBDecodeBits(e, m)
			if len(p.SSRCs) != nssrc || p.SenderSSRC != 1 || (nssrc > 0 && p.SSRCs[0] != uint32(b[20])<<24|uint32(b[21])<<16|uint32(b[22])<<8|uint32(b[23])) {
				cs.Fail("decode/receiver-state-survives", core.W{"input_hex": mon.Hex(b, 20), "decoded_into_used_receiver": vdump(p), "receiver_before": "SenderSSRC 0xDEADBEEF, Bitrate 11349293, SSRCs [a5a5a5a5 5a5a5a5a]"})
				return
			}
			if got := math.Float32bits(p.Bitrate); got != want {
				det := core.W{"input_hex": mon.Hex(b, 20), "exp": e, "mantissa": m, "got": vdump(p.Bitrate), "expected_bits": fmt.Sprintf("%#x", want), "expected": math.Float32frombits(want)}
				if m == 0 && got == (uint32(e)+23+127)<<23 {
					cs.Fail("decode/value", det, "KF3") // the known symptom exactly: 2^(exp+23)
				} else {
					cs.Fail("decode/value", det)
					return
				}
			}
		}
		cs.Eval(1 << 12)
		cs.DistinctN(1 << 12)
		if cs.Idx == 0x6A1 {
			cs.Sample("decode", func() any {
				return map[string]any{"wire_17_19": "1a 20 df (exp 6, mantissa 139487)", "bitrate": 8927168}
			})
		}
	})
	// (2) encode
	if c.Thorough() {
		c.Exhaustive("encode: every non-negative finite float32 bit pattern 0 .. 0x7F7FFFFF", 0x7F800000)
		const blk = 1 << 16
		c.Section("encode-all", 0x7F800000/blk, func(cs *core.Case) {
			var p rtcp.ReceiverEstimatedMaximumBitrate
			lo := uint32(cs.Idx) * blk
			prev := -1.0
			if lo > 0 {
				v, ok := c14Encode(cs, lo-1, &p)
				if !ok {
					return
				}
				prev = v
			}
			for bits := lo; bits < lo+blk; bits++ {
				v, ok := c14Encode(cs, bits, &p)
				if !ok {
					return
				}
				if v < prev {
					cs.Fail("encode/monotone", core.W{"bits": fmt.Sprintf("%#x", bits), "value": v, "previous_value": prev})
					return
				}
				prev = v
			}
			cs.Eval(blk)
			cs.DistinctN(blk)
		})
	} else {
		// dense neighbourhoods
		var centres []uint32
		for E := -2; E <= 128-1; E++ {
			centres = append(centres, uint32(E+127)<<23)          // 2^E
			centres = append(centres, uint32(E+127)<<23|0x7FFFC0) // top mantissa 0x3FFFF.. carry boundary
			centres = append(centres, uint32(E+127)<<23|0x400000)
		}
		centres = append(centres, 0, 1, 0x007FFFFF, 0x00800000, math.Float32bits(float32(0x3FFFF)*(1<<63)), math.Float32bits(262143), math.Float32bits(262144), 0x7F7FF800)
		c.Section("encode-dense", uint64(len(centres)), func(cs *core.Case) {
			var p rtcp.ReceiverEstimatedMaximumBitrate
			ctr := int64(centres[cs.Idx])
			prev := -1.0
			for d := int64(-2048); d <= 2048; d++ {
				b := ctr + d
				if b < 0 || b > 0x7F7FFFFF {
					continue
				}
				v, ok := c14Encode(cs, uint32(b), &p)
				if !ok {
					return
				}
				if v < prev {
					cs.Fail("encode/monotone", core.W{"bits": fmt.Sprintf("%#x", b), "value": v, "previous_value": prev})
					return
				}
				prev = v
				cs.Eval(1)
				cs.DistinctN(1)
			}
			if cs.Idx%50 == 0 {
				cs.Sample("encode-neighbourhood", func() any {
					return map[string]any{"centre_bits": fmt.Sprintf("%#x", ctr), "centre_value": math.Float32frombits(uint32(ctr)), "radius_ulp": 2048}
				})
			}
		})
		c.Section("encode-stride", 1<<10, func(cs *core.Case) {
			var p rtcp.ReceiverEstimatedMaximumBitrate
			// 2^21 samples: stride 1021 over the whole non-negative finite range, PRNG phase
			phase := uint32(cs.R.Intn(1021))
			prev := -1.0
			lo := uint32(cs.Idx) * (0x7F800000 >> 10)
			for bits := lo + phase; bits < lo+(0x7F800000>>10); bits += 1021 {
				v, ok := c14Encode(cs, bits, &p)
				if !ok {
					return
				}
				if v < prev {
					cs.Fail("encode/monotone", core.W{"bits": fmt.Sprintf("%#x", bits), "value": v, "previous_value": prev})
					return
				}
				prev = v
				cs.Eval(1)
				cs.DistinctN(1)
			}
		})
	}
	// (3) round trip through the public Marshal/Unmarshal incl. the decoded float
	c.Section("composite", c.N(300000, 60000000), func(cs *core.Case) {
		r := cs.R
		bits := r.U32() & 0x7FFFFFFF
		if r.Chance(1, 2) {
			bits = uint32(127+r.Intn(84))<<23 | uint32(r.Intn(1<<23))
		}
		if bits >= 0x7F800000 {
			bits = 0x7F7FFFFF
		}
		x := math.Float32frombits(bits)
		p := rtcp.ReceiverEstimatedMaximumBitrate{SenderSSRC: r.U32(), Bitrate: x}
		b, err := p.Marshal()
		cs.Eval(1)
		if err != nil {
			cs.Fail("encode/rejected", core.W{"bitrate": vdump(x), "error": err.Error()})
			return
		}
		var d rtcp.ReceiverEstimatedMaximumBitrate
		if err := d.Unmarshal(b); err != nil {
			cs.Fail("decode/rejected", core.W{"input_hex": mon.Hex(b, 24), "error": err.Error()})
			return
		}
		e, m := rembRefFast(bits)
		want := ref.REMBDecodeBits(e, m)
		y, xf := float64(d.Bitrate), float64(x)
		var kfs []string
		if m == 0 && math.Float32bits(d.Bitrate) == (uint32(e)+23+127)<<23 {
			kfs = append(kfs, "KF3") // the known symptom exactly: 2^(exp+23)
		}
		representable := float64(math.Float32frombits(want)) == xf
		ok := math.Float32bits(d.Bitrate) == want && y <= xf && (y == xf) == representable
		cs.Check(ok, "composite", func() core.W {
			return core.W{"bitrate": vdump(x), "decoded": vdump(d.Bitrate), "expected_bits": fmt.Sprintf("%#x", want), "representable": representable}
		}, kfs...)
		cs.Distinct(uint64(bits))
	})
	// (4) negatives
	c.Section("negative", c.N(100000, 2000000), func(cs *core.Case) {
		r := cs.R
		bits := 0x80000000 | r.U32()&0x7FFFFFFF
		switch r.Intn(6) {
		case 0:
			bits = 0x80000001
		case 1:
			bits = 0xFF7FFFFF
		case 2:
			bits = 0x80800000
		case 3:
			bits = 0xBF800000
		}
		if bits&0x7F800000 == 0x7F800000 && bits&0x7FFFFF != 0 {
			return // NaN: outside the statement
		}
		x := math.Float32frombits(bits)
		p := rtcp.ReceiverEstimatedMaximumBitrate{Bitrate: x}
		b, err := p.Marshal()
		cs.Eval(1)
		cs.Distinct(uint64(bits))
		if bits == 0x80000000 {
			// -0 is not negative; but rejecting it would not contradict the statement either: accept
			// "encoded as 0" as well as "error and no octets", nothing else
			okZero := err == nil && len(b) == 20 && b[17] == 0 && b[18] == 0 && b[19] == 0
			okRejected := err != nil && len(b) == 0
			cs.Check(okZero || okRejected, "negative-zero", func() core.W { return core.W{"error": errStr(err), "octets": mon.Hex(b, 20)} })
			return
		}
		cs.Check(err != nil && len(b) == 0, "negative/accepted", func() core.W { return core.W{"bitrate": vdump(x), "octets": mon.Hex(b, 20)} })
	})
	// (5) SSRC lists of every length 0..255
	c.Exhaustive("SSRC list lengths 0..255", 256)
	// encoding is a function of the bitrate alone, also when many goroutines encode different
	// bitrates at the same time (a memo of "the last exponent", a shared scratch value): every
	// goroutine checks its own outputs against the integer reference; the monitor shares nothing
	c.Section("concurrent-encode", c.N(16, 160), func(cs *core.Case) {
		c.WatchdogOff(true)
		defer c.WatchdogOff(false)
		prev := runtime.GOMAXPROCS(8)
		defer runtime.GOMAXPROCS(prev)
		const G = 8
		per := int(c.N(60000, 600000))
		seeds := make([]uint64, G)
		for i := range seeds {
			seeds[i] = cs.R.U64()
		}
		type bad struct {
			bits     uint32
			got      [3]byte
			wantE    uint8
			wantM    uint32
			failures int
		}
		results := make([]bad, G)
		var pool [6]uint32
		for i := range pool {
			pool[i] = uint32(127+18+cs.R.Intn(60))<<23 | uint32(cs.R.Intn(1<<23))
		}
		var wg sync.WaitGroup
		start := make(chan struct{})
		for g := 0; g < G; g++ {
			wg.Add(1)
			go func(g int) {
				defer wg.Done()
				r := core.NewRand(seeds[g])
				// the same handful of bitrates of different exponents for all goroutines (so that two of
				// them encode the same value at the same time while a third has just encoded another),
				// each goroutine walking through them in its own order
				set := pool
				for i := len(set) - 1; i > 0; i-- {
					j := r.Intn(i + 1)
					set[i], set[j] = set[j], set[i]
				}
				p := rtcp.ReceiverEstimatedMaximumBitrate{SenderSSRC: uint32(g)}
				buf := make([]byte, 20)
				<-start
				for i := 0; i < per; i++ {
					bits := set[i%len(set)]
					p.Bitrate = math.Float32frombits(bits)
					if _, err := p.MarshalTo(buf); err != nil {
						results[g].failures++
						continue
					}
					e, m := rembRefFast(bits)
					if buf[17] != e<<2|byte(m>>16) || buf[18] != byte(m>>8) || buf[19] != byte(m) {
						if results[g].failures == 0 {
							results[g] = bad{bits: bits, got: [3]byte{buf[17], buf[18], buf[19]}, wantE: e, wantM: m}
						}
						results[g].failures++
					}
				}
			}(g)
		}
		close(start)
		wg.Wait()
		cs.Eval(uint64(G * per))
		cs.DistinctN(uint64(G * 6))
		cs.Count("concurrent-encode/goroutine-runs")
		for g, b := range results {
			if b.failures > 0 {
				cs.Fail("concurrent/encode-differs-from-reference", core.W{"goroutine": g, "calls_per_goroutine": per, "wrong_outputs": b.failures, "first_bitrate_bits": fmt.Sprintf("%#x", b.bits), "first_bitrate": math.Float32frombits(b.bits),
					"got_wire_17_19": fmt.Sprintf("%02x %02x %02x", b.got[0], b.got[1], b.got[2]), "expected_exponent": b.wantE, "expected_mantissa": b.wantM})
				return
			}
		}
	})
	// the count octet against the number of entries actually present, beyond 255 entries too (where
	// a comparison in 8 bits wraps): a frame is accepted exactly when the octet is the number
	entriesSet := []int{0, 1, 2, 3, 254, 255, 256, 257, 258, 259, 300, 511, 512, 513, 767, 768, 1023, 1024, 1025, 4096, 16378}
	c.Section("count-octet", uint64(len(entriesSet))*8, func(cs *core.Case) {
		r := cs.R
		e := entriesSet[cs.Idx/8]
		cnt := []int{e % 256, e % 256, (e + 1) % 256, (e + 255) % 256, 0, 255, r.Intn(256), e % 256}[cs.Idx%8]
		b := make([]byte, 20+4*e)
		copy(b, []byte{0x8F, 206, 0, 0, 0, 0, 0, 1, 0, 0, 0, 0, 'R', 'E', 'M', 'B', byte(cnt), 0x04, 0, 1})
		copy(b[20:], r.Bytes(4*e))
		gen.FitLength(b)
		var d rtcp.ReceiverEstimatedMaximumBitrate
		var err error
		if pan, v, st := core.Guard(func() { err = d.Unmarshal(cloneBytes(b)) }); pan {
			cs.Fail("panic/Unmarshal", core.W{"entries": e, "count_octet": cnt, "panic": v, "stack": st})
			return
		}
		cs.Eval(1)
		cs.Distinct(core.Digest(b[:20], []byte{byte(e >> 8), byte(e)}))
		want := e <= 255 && cnt == e
		ok := (err == nil) == want && (err != nil || len(d.SSRCs) == e)
		cs.Check(ok, "count-octet", func() core.W {
			return core.W{"entries_present": e, "count_octet": cnt, "input_head_hex": mon.Hex(b, 24), "error": errStr(err), "decoded_entries": len(d.SSRCs), "expected_accept": want}
		})
	})
	c.Section("ssrc-lists", 256*c.N(8, 200), func(cs *core.Case) {
		r := cs.R
		n := int(cs.Idx % 256)
		p := rtcp.ReceiverEstimatedMaximumBitrate{SenderSSRC: r.U32(), Bitrate: float32(1 + r.Intn(1<<18))}
		for i := 0; i < n; i++ {
			p.SSRCs = append(p.SSRCs, r.B32())
		}
		b, err := p.Marshal()
		cs.Eval(1)
		cs.Distinct(core.Digest(b))
		if err != nil || len(b) != 20+4*n || int(b[16]) != n {
			cs.Fail("ssrc-count", core.W{"entries": n, "error": errStr(err), "len": len(b), "octets": mon.Hex(b, 24)})
			return
		}
		for i, s := range p.SSRCs {
			o := 20 + 4*i
			if uint32(b[o])<<24|uint32(b[o+1])<<16|uint32(b[o+2])<<8|uint32(b[o+3]) != s {
				cs.Fail("ssrc-entry", core.W{"index": i, "octets": mon.Hex(b, 64)})
				return
			}
		}
		var d rtcp.ReceiverEstimatedMaximumBitrate
		if err := d.Unmarshal(b); err != nil || !mon.SemEqual(d.SSRCs, p.SSRCs) {
			cs.Fail("ssrc-decode", core.W{"entries": n, "error": errStr(err), "decoded": fmt.Sprint(d.SSRCs)})
		}
	})
	c.KnownWitness("KF3", func() (bool, string) {
		var d rtcp.ReceiverEstimatedMaximumBitrate
		err := d.Unmarshal([]byte{0x8F, 206, 0, 4, 0, 0, 0, 1, 0, 0, 0, 0, 'R', 'E', 'M', 'B', 0, 0, 0, 0})
		return err == nil && d.Bitrate != 0, "REMB wire exponent 0 / mantissa 0 decodes to " + vdump(d.Bitrate) + " instead of 0"
	})
}
