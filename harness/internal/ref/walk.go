package ref

import (
	"errors"
	"fmt"
)

// TWCCDelta is one receive delta read from the wire.
type TWCCDelta struct {
	Sym   uint8 // 1 small (1 octet, unsigned), 2 large (2 octets, signed)
	Units int64 // multiples of 250 µs
}

// TWCCWalk is the independent expansion of the raw octets of a transport-wide-cc packet.
type TWCCWalk struct {
	Padding           bool
	LengthField       uint16
	Sender, Media     uint32
	Base, Count       uint16
	RefTime           uint32
	FbCount           uint8
	ChunkWords        []uint16
	Symbols           []uint8 // all symbols announced by the chunks: runs clipped to the remaining count, vectors in full
	Deltas            []TWCCDelta
	ChunksEnd, Cursor int     // offsets after the last chunk / after the last delta
	Declared          int     // 4*(length+1)
	StatusesWithinCnt []uint8 // Symbols truncated to Count
	DeltasWithinCount int     // number of deltas belonging to the first Count statuses
}

// ErrWalk is returned when the octets cannot be walked inside their bounds.
var ErrWalk = errors.New("ref: walk leaves the packet")

// WalkTWCC expands b (a whole TWCC packet starting at its common header). limit is the
// number of octets the walk may use: min(len(b), declared length).
// WalkTWCC follows the reading "every received symbol announced by the chunks has a delta"
// (vector chunks in full). WalkTWCCClipped follows the other reading the statement allows: only
// the first Count statuses are packets, so only they have deltas.
func WalkTWCCClipped(b []byte) (*TWCCWalk, error) { return walkTWCC(b, true) }

func WalkTWCC(b []byte) (*TWCCWalk, error) { return walkTWCC(b, false) }

func walkTWCC(b []byte, clipVectors bool) (*TWCCWalk, error) {
	if len(b) < 20 {
		return nil, ErrWalk
	}
	w := &TWCCWalk{}
	w.Padding = b[0]>>5&1 == 1
	w.LengthField = uint16(b[2])<<8 | uint16(b[3])
	w.Declared = 4 * (int(w.LengthField) + 1)
	limit := len(b)
	if w.Declared < limit {
		limit = w.Declared
	}
	be16 := func(o int) uint16 { return uint16(b[o])<<8 | uint16(b[o+1]) }
	be32 := func(o int) uint32 { return uint32(be16(o))<<16 | uint32(be16(o+2)) }
	w.Sender, w.Media = be32(4), be32(8)
	w.Base, w.Count = be16(12), be16(14)
	w.RefTime = uint32(b[16])<<16 | uint32(b[17])<<8 | uint32(b[18])
	w.FbCount = b[19]
	pos := 20
	remaining := int(w.Count)
	for remaining > 0 {
		if pos+2 > limit {
			return w, fmt.Errorf("%w: status chunk at %d beyond %d", ErrWalk, pos, limit)
		}
		word := be16(pos)
		pos += 2
		w.ChunkWords = append(w.ChunkWords, word)
		if word>>15 == 0 { // run length
			sym := uint8(word >> 13 & 3)
			run := int(word & 0x1FFF)
			if run > remaining {
				run = remaining
			}
			for i := 0; i < run; i++ {
				w.Symbols = append(w.Symbols, sym)
			}
			remaining -= run
		} else if word>>14&1 == 0 { // 14 one-bit symbols
			for i := 13; i >= 0; i-- {
				w.Symbols = append(w.Symbols, uint8(word>>uint(i)&1))
			}
			remaining -= 14
		} else { // 7 two-bit symbols
			for i := 6; i >= 0; i-- {
				w.Symbols = append(w.Symbols, uint8(word>>uint(2*i)&3))
			}
			remaining -= 7
		}
	}
	w.ChunksEnd = pos
	for i, s := range w.Symbols {
		if clipVectors && i >= int(w.Count) {
			break
		}
		switch s {
		case 1:
			if pos+1 > limit {
				return w, fmt.Errorf("%w: small delta at %d beyond %d", ErrWalk, pos, limit)
			}
			w.Deltas = append(w.Deltas, TWCCDelta{1, int64(b[pos])})
			pos++
		case 2:
			if pos+2 > limit {
				return w, fmt.Errorf("%w: large delta at %d beyond %d", ErrWalk, pos, limit)
			}
			w.Deltas = append(w.Deltas, TWCCDelta{2, int64(int16(be16(pos)))})
			pos += 2
		default:
			continue
		}
		if i < int(w.Count) {
			w.DeltasWithinCount++
		}
	}
	w.Cursor = pos
	w.StatusesWithinCnt = w.Symbols
	if len(w.StatusesWithinCnt) > int(w.Count) {
		w.StatusesWithinCnt = w.StatusesWithinCnt[:w.Count]
	}
	return w, nil
}

// XRBlockWalk is one report block found by the independent XR walker.
type XRBlockWalk struct {
	BT, TypeSpecific uint8
	LengthWords      uint16
	Off, Size        int
	Body             []byte // octets after the 4-octet block header
}

// WalkXR splits the octets of an extended report into blocks using only the block length
// fields. strict: a block extending beyond the packet is an error.
func WalkXR(b []byte) (ssrc uint32, blocks []XRBlockWalk, err error) {
	if len(b) < 8 {
		return 0, nil, ErrWalk
	}
	ssrc = uint32(b[4])<<24 | uint32(b[5])<<16 | uint32(b[6])<<8 | uint32(b[7])
	off := 8
	for off < len(b) {
		if off+4 > len(b) {
			return ssrc, blocks, fmt.Errorf("%w: block header at %d", ErrWalk, off)
		}
		l := uint16(b[off+2])<<8 | uint16(b[off+3])
		size := 4 * (int(l) + 1)
		if off+size > len(b) {
			return ssrc, blocks, fmt.Errorf("%w: block at %d of %d octets beyond %d", ErrWalk, off, size, len(b))
		}
		blocks = append(blocks, XRBlockWalk{BT: b[off], TypeSpecific: b[off+1], LengthWords: l, Off: off, Size: size, Body: b[off+4 : off+size]})
		off += size
	}
	return ssrc, blocks, nil
}
