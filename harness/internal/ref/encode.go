// Package ref is the INDEPENDENT reference model used as oracle: an RTCP encoder written from
// the RFC text (3550 §6.4–6.7, 4585 §6.1–6.3, 5104 §4.3.1, 6051 §7, 3611 §3–4.7, 8888 §3.1,
// draft-holmer-rmcat-transport-wide-cc-extensions-01, draft-alvestrand-rmcat-remb-03), variant
// encoders for forms the library never emits, and independent walkers for TWCC and XR octets.
// It uses the exported struct types of the package under test as plain data carriers and none
// of its functions or offset constants.
package ref

import (
	"errors"
	"fmt"
	"math"
	"math/big"

	"github.com/pion/rtcp"
)

// Dialect selects how two pinned deviations of the library are treated.
type Dialect int

const (
	// RFC is the layout the specifications prescribe.
	RFC Dialect = iota
	// Lib differs from RFC in exactly two pinned points (known findings KF1, KF2): SLI is sent
	// with PT 205, and the RFC 8888 num_reports field carries n-1 (0 for n = 0 or 1).
	Lib
)

// Field names a span of the encoding.
type Field struct {
	Off, Len int
	Name     string
}

// Enc is a reference encoding with its don't-care mask and field map.
type Enc struct {
	B      []byte
	Mask   []byte // 0xFF: octet is specified; 0x00: unspecified padding octet
	Fields []Field
}

// ErrOutsideDomain is returned for values outside the well-formed domain D.
var ErrOutsideDomain = errors.New("ref: value outside the well-formed domain")

// FieldAt names the field covering offset off.
func (e *Enc) FieldAt(off int) string {
	for _, f := range e.Fields {
		if off >= f.Off && off < f.Off+f.Len {
			return f.Name
		}
	}
	return "?"
}

type wr struct {
	b      []byte
	mask   []byte
	fields []Field
	prefix string
}

func (w *wr) mark(name string, n int) {
	w.fields = append(w.fields, Field{len(w.b), n, w.prefix + name})
}
func (w *wr) put(name string, bs ...byte) {
	w.mark(name, len(bs))
	w.b = append(w.b, bs...)
	for range bs {
		w.mask = append(w.mask, 0xFF)
	}
}
func (w *wr) u8(name string, v uint8)   { w.put(name, v) }
func (w *wr) u16(name string, v uint16) { w.put(name, byte(v>>8), byte(v)) }
func (w *wr) u24(name string, v uint32) { w.put(name, byte(v>>16), byte(v>>8), byte(v)) }
func (w *wr) u32(name string, v uint32) {
	w.put(name, byte(v>>24), byte(v>>16), byte(v>>8), byte(v))
}
func (w *wr) u64(name string, v uint64) {
	w.put(name, byte(v>>56), byte(v>>48), byte(v>>40), byte(v>>32), byte(v>>24), byte(v>>16), byte(v>>8), byte(v))
}
func (w *wr) zeros(name string, n int) {
	if n > 0 {
		w.put(name, make([]byte, n)...)
	}
}
func (w *wr) dontcare(name string, n int, fill byte) {
	w.mark(name, n)
	for i := 0; i < n; i++ {
		w.b = append(w.b, fill)
		w.mask = append(w.mask, 0x00)
	}
}

// header writes the common header with a zero length, to be patched by finish.
func (w *wr) header(padding bool, count uint8, pt uint8) {
	b0 := byte(2<<6) | (count & 0x1F)
	if padding {
		b0 |= 1 << 5
	}
	w.put("hdr.V/P/count", b0)
	w.put("hdr.pt", pt)
	w.put("hdr.length", 0, 0)
}

func (w *wr) finish(start int) {
	n := len(w.b) - start
	words := n/4 - 1
	w.b[start+2] = byte(words >> 8)
	w.b[start+3] = byte(words)
}

func pad4(n int) int { return (4 - n%4) % 4 }

// Encode returns the reference encoding of a well-formed packet value.
// The Lib dialect is "what the library under test speaks" in the two points where the pinned
// tree deviates from the RFCs (known findings KF1 and KF2). Which way the library goes is
// observed once at start-up (ProbeDialect) from its own encoder, so that a tree in which a finding
// has been repaired is fed RFC encodings where the checks need "the library's own encoding".
// Judging is always done against the RFC dialect.
var (
	LibSLI205     = true
	LibCCFBMinus1 = true
)

// ProbeDialect sets LibSLI205 and LibCCFBMinus1 from the library's own Marshal output.
func ProbeDialect() {
	defer func() { _ = recover() }()
	if b, err := (&rtcp.SliceLossIndication{SLI: []rtcp.SLIEntry{{First: 1, Number: 2, Picture: 3}}}).Marshal(); err == nil && len(b) >= 2 {
		LibSLI205 = b[1] == 205
	}
	v := &rtcp.CCFeedbackReport{ReportBlocks: []rtcp.CCFeedbackReportBlock{{MediaSSRC: 1, BeginSequence: 10, MetricBlocks: make([]rtcp.CCFeedbackMetricBlock, 3)}}}
	if b, err := v.Marshal(); err == nil && len(b) >= 16 {
		LibCCFBMinus1 = int(b[14])<<8|int(b[15]) == 2
	}
}

func Encode(p rtcp.Packet, d Dialect) (*Enc, error) {
	w := &wr{}
	if err := encodeInto(w, p, d); err != nil {
		return nil, err
	}
	return &Enc{B: w.b, Mask: w.mask, Fields: w.fields}, nil
}

// EncodeList concatenates the reference encodings of a list.
func EncodeList(ps []rtcp.Packet, d Dialect) (*Enc, error) {
	w := &wr{}
	for i, p := range ps {
		w.prefix = fmt.Sprintf("[%d].", i)
		if err := encodeInto(w, p, d); err != nil {
			return nil, err
		}
	}
	return &Enc{B: w.b, Mask: w.mask, Fields: w.fields}, nil
}

func reports(w *wr, rs []rtcp.ReceptionReport) error {
	for i, r := range rs {
		if r.TotalLost >= 1<<24 {
			return ErrOutsideDomain
		}
		pre := fmt.Sprintf("report[%d].", i)
		w.u32(pre+"ssrc", r.SSRC)
		w.u8(pre+"fraction_lost", r.FractionLost)
		w.u24(pre+"cumulative_lost", r.TotalLost)
		w.u32(pre+"ext_highest_seq", r.LastSequenceNumber)
		w.u32(pre+"jitter", r.Jitter)
		w.u32(pre+"lsr", r.LastSenderReport)
		w.u32(pre+"dlsr", r.Delay)
	}
	return nil
}

func encodeInto(w *wr, p rtcp.Packet, d Dialect) error {
	start := len(w.b)
	switch v := p.(type) {
	case *rtcp.SenderReport:
		if len(v.Reports) > 31 || len(v.ProfileExtensions)%4 != 0 {
			return ErrOutsideDomain
		}
		w.header(false, uint8(len(v.Reports)), 200)
		w.u32("ssrc", v.SSRC)
		w.u64("ntp", v.NTPTime)
		w.u32("rtp_ts", v.RTPTime)
		w.u32("packet_count", v.PacketCount)
		w.u32("octet_count", v.OctetCount)
		if err := reports(w, v.Reports); err != nil {
			return err
		}
		w.put("profile_ext", v.ProfileExtensions...)
	case *rtcp.ReceiverReport:
		if len(v.Reports) > 31 {
			return ErrOutsideDomain
		}
		w.header(false, uint8(len(v.Reports)), 201)
		w.u32("ssrc", v.SSRC)
		if err := reports(w, v.Reports); err != nil {
			return err
		}
		w.put("profile_ext", v.ProfileExtensions...)
		w.zeros("profile_ext_pad", pad4(len(v.ProfileExtensions)))
	case *rtcp.SourceDescription:
		if len(v.Chunks) > 31 {
			return ErrOutsideDomain
		}
		w.header(false, uint8(len(v.Chunks)), 202)
		for i, c := range v.Chunks {
			cs := len(w.b)
			pre := fmt.Sprintf("chunk[%d].", i)
			w.u32(pre+"ssrc", c.Source)
			for j, it := range c.Items {
				if it.Type == 0 || len(it.Text) > 255 {
					return ErrOutsideDomain
				}
				ip := fmt.Sprintf("%sitem[%d].", pre, j)
				w.u8(ip+"type", uint8(it.Type))
				w.u8(ip+"len", uint8(len(it.Text)))
				w.put(ip+"text", []byte(it.Text)...)
			}
			w.u8(pre+"end", 0)
			w.zeros(pre+"pad", pad4(len(w.b)-cs))
		}
	case *rtcp.Goodbye:
		if len(v.Sources) > 31 || len(v.Reason) > 255 {
			return ErrOutsideDomain
		}
		w.header(false, uint8(len(v.Sources)), 203)
		for i, s := range v.Sources {
			w.u32(fmt.Sprintf("source[%d]", i), s)
		}
		if v.Reason != "" {
			w.u8("reason_len", uint8(len(v.Reason)))
			w.put("reason", []byte(v.Reason)...)
			w.zeros("reason_pad", pad4(1+len(v.Reason)))
		}
	case *rtcp.ApplicationDefined:
		if v.SubType > 31 || len(v.Name) != 4 || len(v.Data) > 0xFFFF-12 {
			return ErrOutsideDomain
		}
		pad := pad4(len(v.Data))
		w.header(pad != 0, v.SubType, 204)
		w.u32("ssrc", v.SSRC)
		w.put("name", []byte(v.Name)...)
		w.put("data", v.Data...)
		if pad > 0 {
			// RFC 3550 §6.4.1: the last padding octet counts the padding octets; the others are unspecified.
			w.dontcare("padding", pad-1, 0)
			w.u8("padding_count", uint8(pad))
		}
	case *rtcp.TransportLayerNack:
		if len(v.Nacks) > 253 {
			return ErrOutsideDomain // D: the library's documented cap on entries (its length arithmetic is 8-bit)
		}
		w.header(false, 1, 205)
		w.u32("sender_ssrc", v.SenderSSRC)
		w.u32("media_ssrc", v.MediaSSRC)
		for i, n := range v.Nacks {
			w.u16(fmt.Sprintf("nack[%d].pid", i), n.PacketID)
			w.u16(fmt.Sprintf("nack[%d].blp", i), uint16(n.LostPackets))
		}
	case *rtcp.RapidResynchronizationRequest:
		w.header(false, 5, 205)
		w.u32("sender_ssrc", v.SenderSSRC)
		w.u32("media_ssrc", v.MediaSSRC)
	case *rtcp.PictureLossIndication:
		w.header(false, 1, 206)
		w.u32("sender_ssrc", v.SenderSSRC)
		w.u32("media_ssrc", v.MediaSSRC)
	case *rtcp.SliceLossIndication:
		pt := uint8(206) // RFC 4585 §6.3.2: payload-specific feedback
		if d == Lib && LibSLI205 {
			pt = 205
		}
		if len(v.SLI) > 253 {
			return ErrOutsideDomain
		}
		w.header(false, 2, pt)
		w.u32("sender_ssrc", v.SenderSSRC)
		w.u32("media_ssrc", v.MediaSSRC)
		for i, s := range v.SLI {
			if s.First >= 1<<13 || s.Number >= 1<<13 || s.Picture >= 1<<6 {
				return ErrOutsideDomain
			}
			word := uint32(s.First)<<19 | uint32(s.Number)<<6 | uint32(s.Picture)
			w.u32(fmt.Sprintf("sli[%d]", i), word)
		}
	case *rtcp.FullIntraRequest:
		w.header(false, 4, 206)
		w.u32("sender_ssrc", v.SenderSSRC)
		w.u32("media_ssrc", v.MediaSSRC)
		for i, f := range v.FIR {
			w.u32(fmt.Sprintf("fir[%d].ssrc", i), f.SSRC)
			w.u8(fmt.Sprintf("fir[%d].seq", i), f.SequenceNumber)
			w.zeros(fmt.Sprintf("fir[%d].reserved", i), 3)
		}
	case *rtcp.ReceiverEstimatedMaximumBitrate:
		if len(v.SSRCs) > 255 {
			return ErrOutsideDomain
		}
		exp, mant, ok := REMBEncode(v.Bitrate)
		if !ok {
			return ErrOutsideDomain
		}
		w.header(false, 15, 206)
		w.u32("sender_ssrc", v.SenderSSRC)
		w.u32("media_ssrc(0)", 0)
		w.put("REMB", 'R', 'E', 'M', 'B')
		w.u8("num_ssrc", uint8(len(v.SSRCs)))
		w.put("exp/mantissa", byte(exp<<2)|byte(mant>>16), byte(mant>>8), byte(mant))
		for i, s := range v.SSRCs {
			w.u32(fmt.Sprintf("ssrc[%d]", i), s)
		}
	case *rtcp.TransportLayerCC:
		return encodeTWCC(w, v)
	case *rtcp.CCFeedbackReport:
		w.header(false, 11, 205)
		w.u32("sender_ssrc", v.SenderSSRC)
		for i, b := range v.ReportBlocks {
			pre := fmt.Sprintf("block[%d].", i)
			n := len(b.MetricBlocks)
			if n > 16384 {
				return ErrOutsideDomain
			}
			w.u32(pre+"ssrc", b.MediaSSRC)
			w.u16(pre+"begin_seq", b.BeginSequence)
			nr := uint16(n) // RFC 8888 §3.1: num_reports = number of metric blocks
			if d == Lib && LibCCFBMinus1 {
				if n > 0 {
					nr = uint16(n - 1)
				}
			}
			w.u16(pre+"num_reports", nr)
			for j, mb := range b.MetricBlocks {
				if mb.ECN > 3 || mb.ArrivalTimeOffset >= 1<<13 {
					return ErrOutsideDomain
				}
				var word uint16
				if mb.Received {
					word = 1<<15 | uint16(mb.ECN)<<13 | mb.ArrivalTimeOffset
				} else {
					// not received: D holds canonical values only (ECN and offset zero)
					if mb.ECN != 0 || mb.ArrivalTimeOffset != 0 {
						return ErrOutsideDomain
					}
					word = 0
				}
				w.u16(fmt.Sprintf("%smetric[%d]", pre, j), word)
			}
			if n%2 == 1 {
				w.zeros(pre+"pad", 2)
			}
		}
		w.u32("report_timestamp", v.ReportTimestamp)
	case *rtcp.ExtendedReport:
		w.header(false, 0, 207)
		w.u32("ssrc", v.SenderSSRC)
		for i, rb := range v.Reports {
			w.prefix += fmt.Sprintf("block[%d].", i)
			err := encodeXRBlock(w, rb)
			w.prefix = w.prefix[:len(w.prefix)-len(fmt.Sprintf("block[%d].", i))]
			if err != nil {
				return err
			}
		}
	case *rtcp.RawPacket:
		if len(*v) < 4 || len(*v)%4 != 0 || (*v)[0]>>6 != 2 || (int((*v)[2])<<8|int((*v)[3])+1)*4 != len(*v) {
			return ErrOutsideDomain
		}
		w.put("raw", []byte(*v)...)
		return nil
	case *rtcp.CompoundPacket:
		for i, m := range *v {
			old := w.prefix
			w.prefix += fmt.Sprintf("member[%d].", i)
			if err := encodeInto(w, m, d); err != nil {
				return err
			}
			w.prefix = old
		}
		return nil
	default:
		return fmt.Errorf("ref: unsupported packet type %T", p)
	}
	if (len(w.b)-start)%4 != 0 {
		return ErrOutsideDomain
	}
	w.finish(start)
	return nil
}

func encodeXRBlock(w *wr, rb rtcp.ReportBlock) error {
	start := len(w.b)
	blockHdr := func(bt uint8, ts uint8) {
		w.u8("bt", bt)
		w.u8("type_specific", ts)
		w.u16("block_length", 0)
	}
	switch b := rb.(type) {
	case *rtcp.LossRLEReportBlock:
		if b.T > 15 || len(b.Chunks)%2 != 0 {
			return ErrOutsideDomain
		}
		blockHdr(1, b.T)
		w.u32("ssrc", b.SSRC)
		w.u16("begin_seq", b.BeginSeq)
		w.u16("end_seq", b.EndSeq)
		for i, c := range b.Chunks {
			w.u16(fmt.Sprintf("chunk[%d]", i), uint16(c))
		}
	case *rtcp.DuplicateRLEReportBlock:
		if b.T > 15 || len(b.Chunks)%2 != 0 {
			return ErrOutsideDomain
		}
		blockHdr(2, b.T)
		w.u32("ssrc", b.SSRC)
		w.u16("begin_seq", b.BeginSeq)
		w.u16("end_seq", b.EndSeq)
		for i, c := range b.Chunks {
			w.u16(fmt.Sprintf("chunk[%d]", i), uint16(c))
		}
	case *rtcp.PacketReceiptTimesReportBlock:
		if b.T > 15 {
			return ErrOutsideDomain
		}
		blockHdr(3, b.T)
		w.u32("ssrc", b.SSRC)
		w.u16("begin_seq", b.BeginSeq)
		w.u16("end_seq", b.EndSeq)
		for i, t := range b.ReceiptTime {
			w.u32(fmt.Sprintf("receipt_time[%d]", i), t)
		}
	case *rtcp.ReceiverReferenceTimeReportBlock:
		blockHdr(4, 0)
		w.u64("ntp", b.NTPTimestamp)
	case *rtcp.DLRRReportBlock:
		blockHdr(5, 0)
		for i, r := range b.Reports {
			w.u32(fmt.Sprintf("sub[%d].ssrc", i), r.SSRC)
			w.u32(fmt.Sprintf("sub[%d].lrr", i), r.LastRR)
			w.u32(fmt.Sprintf("sub[%d].dlrr", i), r.DLRR)
		}
	case *rtcp.StatisticsSummaryReportBlock:
		if b.TTLorHopLimit > 3 {
			return ErrOutsideDomain
		}
		var ts uint8
		if b.LossReports {
			ts |= 0x80
		}
		if b.DuplicateReports {
			ts |= 0x40
		}
		if b.JitterReports {
			ts |= 0x20
		}
		ts |= uint8(b.TTLorHopLimit) << 3
		blockHdr(6, ts)
		w.u32("ssrc", b.SSRC)
		w.u16("begin_seq", b.BeginSeq)
		w.u16("end_seq", b.EndSeq)
		w.u32("lost_packets", b.LostPackets)
		w.u32("dup_packets", b.DupPackets)
		w.u32("min_jitter", b.MinJitter)
		w.u32("max_jitter", b.MaxJitter)
		w.u32("mean_jitter", b.MeanJitter)
		w.u32("dev_jitter", b.DevJitter)
		w.u8("min_ttl", b.MinTTLOrHL)
		w.u8("max_ttl", b.MaxTTLOrHL)
		w.u8("mean_ttl", b.MeanTTLOrHL)
		w.u8("dev_ttl", b.DevTTLOrHL)
	case *rtcp.VoIPMetricsReportBlock:
		blockHdr(7, 0)
		w.u32("ssrc", b.SSRC)
		w.u8("loss_rate", b.LossRate)
		w.u8("discard_rate", b.DiscardRate)
		w.u8("burst_density", b.BurstDensity)
		w.u8("gap_density", b.GapDensity)
		w.u16("burst_duration", b.BurstDuration)
		w.u16("gap_duration", b.GapDuration)
		w.u16("round_trip_delay", b.RoundTripDelay)
		w.u16("end_system_delay", b.EndSystemDelay)
		w.u8("signal_level", b.SignalLevel)
		w.u8("noise_level", b.NoiseLevel)
		w.u8("rerl", b.RERL)
		w.u8("gmin", b.Gmin)
		w.u8("r_factor", b.RFactor)
		w.u8("ext_r_factor", b.ExtRFactor)
		w.u8("mos_lq", b.MOSLQ)
		w.u8("mos_cq", b.MOSCQ)
		w.u8("rx_config", b.RXConfig)
		w.u8("reserved", 0)
		w.u16("jb_nominal", b.JBNominal)
		w.u16("jb_maximum", b.JBMaximum)
		w.u16("jb_abs_max", b.JBAbsMax)
	case *rtcp.UnknownReportBlock:
		if len(b.Bytes)%4 != 0 || (b.BlockType >= 1 && b.BlockType <= 7) {
			return ErrOutsideDomain // an unknown block has an unregistered type (0, 8..255)
		}
		blockHdr(uint8(b.BlockType), uint8(b.TypeSpecific))
		w.put("bytes", b.Bytes...)
	default:
		return fmt.Errorf("ref: unsupported XR block %T", rb)
	}
	n := len(w.b) - start
	if n%4 != 0 {
		return ErrOutsideDomain
	}
	words := n/4 - 1
	w.b[start+2] = byte(words >> 8)
	w.b[start+3] = byte(words)
	return nil
}

// encodeTWCC lays out a transport-wide-cc feedback packet from the value's chunk and delta
// lists; the header is the caller's (the statement's precondition: consistent with content).
func encodeTWCC(w *wr, t *rtcp.TransportLayerCC) error {
	start := len(w.b)
	if t.Header.Count != 15 || t.Header.Type != 205 || t.ReferenceTime >= 1<<24 {
		return ErrOutsideDomain
	}
	w.header(t.Header.Padding, 15, 205)
	w.u32("sender_ssrc", t.SenderSSRC)
	w.u32("media_ssrc", t.MediaSSRC)
	w.u16("base_seq", t.BaseSequenceNumber)
	w.u16("status_count", t.PacketStatusCount)
	w.u24("reference_time", t.ReferenceTime)
	w.u8("fb_pkt_count", t.FbPktCount)
	for i, ch := range t.PacketChunks {
		word, err := TWCCChunkWord(ch)
		if err != nil {
			return err
		}
		w.u16(fmt.Sprintf("chunk[%d]", i), word)
	}
	for i, dl := range t.RecvDeltas {
		// a delta that is not a whole number of 250 µs units is quantised (the remainder is
		// dropped); for negative values "dropped" is ambiguous between rounding down and rounding
		// toward zero, so only whole units are in D there
		if dl == nil || (dl.Delta%250 != 0 && dl.Delta < 0) {
			return ErrOutsideDomain
		}
		u := dl.Delta / 250
		switch dl.Type {
		case 1:
			if u < 0 || u > 255 {
				return ErrOutsideDomain
			}
			w.u8(fmt.Sprintf("delta[%d]", i), uint8(u))
		case 2:
			if u < -32768 || u > 32767 {
				return ErrOutsideDomain
			}
			w.u16(fmt.Sprintf("delta[%d]", i), uint16(int16(u)))
		default:
			return ErrOutsideDomain
		}
	}
	pad := pad4(len(w.b) - start)
	if t.Header.Padding && pad == 0 {
		return ErrOutsideDomain // the statement: padding flag set only when padding octets exist
	}
	if pad > 0 {
		if t.Header.Padding {
			w.zeros("padding", pad-1)
			w.u8("padding_count", uint8(pad))
		} else {
			w.zeros("padding", pad) // "zero padding" of the draft, P bit clear
		}
	}
	w.finish(start)
	if int(t.Header.Length) != (len(w.b)-start)/4-1 {
		return ErrOutsideDomain
	}
	return nil
}

// TWCCChunkWord packs one status chunk value into its 16-bit wire word.
func TWCCChunkWord(ch rtcp.PacketStatusChunk) (uint16, error) {
	switch c := ch.(type) {
	case *rtcp.RunLengthChunk:
		if c.PacketStatusSymbol > 3 || c.RunLength >= 1<<13 {
			return 0, ErrOutsideDomain
		}
		return c.PacketStatusSymbol<<13 | c.RunLength, nil
	case *rtcp.StatusVectorChunk:
		word := uint16(1 << 15)
		switch c.SymbolSize {
		case 0:
			if len(c.SymbolList) > 14 {
				return 0, ErrOutsideDomain
			}
			for i, s := range c.SymbolList {
				if s > 1 {
					return 0, ErrOutsideDomain
				}
				word |= s << uint(13-i)
			}
		case 1:
			if len(c.SymbolList) > 7 {
				return 0, ErrOutsideDomain
			}
			word |= 1 << 14
			for i, s := range c.SymbolList {
				if s > 3 {
					return 0, ErrOutsideDomain
				}
				word |= s << uint(12-2*i)
			}
		default:
			return 0, ErrOutsideDomain
		}
		return word, nil
	}
	return 0, ErrOutsideDomain
}

// REMBEncode is the exact integer reference for the REMB bitrate coding: the largest value
// mantissa·2^exp (mantissa < 2^18, exp minimal, exp <= 63) not exceeding x, saturating at
// 0x3FFFF·2^63. ok is false for negative, NaN or infinite-negative inputs.
func REMBEncode(x float32) (exp uint8, mantissa uint32, ok bool) {
	bits := math.Float32bits(x)
	if x != x { // NaN
		return 0, 0, false
	}
	if bits>>31 == 1 {
		if bits<<1 == 0 { // -0
			return 0, 0, true
		}
		return 0, 0, false
	}
	if math.IsInf(float64(x), 1) {
		return 63, 0x3FFFF, true
	}
	// exact value as a rational: float32 → big.Float is exact
	v, _ := new(big.Float).SetPrec(64).SetFloat64(float64(x)).Int(nil) // floor for x >= 0
	max := new(big.Int).Lsh(big.NewInt(0x3FFFF), 63)
	if v.Cmp(max) >= 0 {
		return 63, 0x3FFFF, true
	}
	e := 0
	if bl := v.BitLen(); bl > 18 {
		e = bl - 18
	}
	m := new(big.Int).Rsh(v, uint(e))
	return uint8(e), uint32(m.Uint64()), true
}

// REMBDecodeBits returns the float32 bit pattern of mantissa·2^exp computed with integers
// (round-to-nearest-even is never needed: an 18-bit mantissa always fits float32's 24 bits;
// values above the float32 range become +Inf).
func REMBDecodeBits(exp uint8, mantissa uint32) uint32 {
	if mantissa == 0 {
		return 0
	}
	// normalise: mantissa = 1.xxx · 2^(msb)
	msb := 31
	for mantissa>>uint(msb)&1 == 0 {
		msb--
	}
	e := int(exp) + msb // unbiased exponent
	if e > 127 {
		return 0x7F800000
	}
	frac := (mantissa << uint(23-msb)) & 0x7FFFFF
	return uint32(e+127)<<23 | frac
}
