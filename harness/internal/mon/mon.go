// Package mon holds the generic monitors: semantic equality, deep clones / snapshots,
// value dumps for witnesses, and the allocation meter.
package mon

import (
	"fmt"
	"math"
	"reflect"
	"runtime"
	"sort"
	"strings"
)

// SemEqual is reflect.DeepEqual modulo nil-vs-empty slices (the decoders legitimately return
// nil, []T{} or an aliasing empty slice depending on the path; the properties are about
// values). Pointers are followed; interface values must hold the same dynamic type.
func SemEqual(a, b any) bool {
	return semEq(reflect.ValueOf(a), reflect.ValueOf(b), 0)
}

func semEq(a, b reflect.Value, depth int) bool {
	if depth > 64 {
		return false
	}
	if !a.IsValid() || !b.IsValid() {
		return a.IsValid() == b.IsValid()
	}
	if a.Type() != b.Type() {
		return false
	}
	switch a.Kind() {
	case reflect.Bool:
		return a.Bool() == b.Bool()
	case reflect.Int, reflect.Int8, reflect.Int16, reflect.Int32, reflect.Int64:
		return a.Int() == b.Int()
	case reflect.Uint, reflect.Uint8, reflect.Uint16, reflect.Uint32, reflect.Uint64, reflect.Uintptr:
		return a.Uint() == b.Uint()
	case reflect.Float32, reflect.Float64:
		x, y := a.Float(), b.Float()
		return x == y || (math.IsNaN(x) && math.IsNaN(y))
	case reflect.String:
		return a.String() == b.String()
	case reflect.Slice:
		if a.Len() != b.Len() {
			return false
		}
		if a.Type().Elem().Kind() == reflect.Uint8 {
			for i := 0; i < a.Len(); i++ {
				if a.Index(i).Uint() != b.Index(i).Uint() {
					return false
				}
			}
			return true
		}
		for i := 0; i < a.Len(); i++ {
			if !semEq(a.Index(i), b.Index(i), depth+1) {
				return false
			}
		}
		return true
	case reflect.Array:
		for i := 0; i < a.Len(); i++ {
			if !semEq(a.Index(i), b.Index(i), depth+1) {
				return false
			}
		}
		return true
	case reflect.Ptr:
		if a.IsNil() || b.IsNil() {
			return a.IsNil() == b.IsNil()
		}
		return semEq(a.Elem(), b.Elem(), depth+1)
	case reflect.Interface:
		if a.IsNil() || b.IsNil() {
			return a.IsNil() == b.IsNil()
		}
		return semEq(a.Elem(), b.Elem(), depth+1)
	case reflect.Struct:
		for i := 0; i < a.NumField(); i++ {
			if !semEq(a.Field(i), b.Field(i), depth+1) {
				return false
			}
		}
		return true
	case reflect.Map:
		if a.Len() != b.Len() {
			return false
		}
		for _, k := range a.MapKeys() {
			bv := b.MapIndex(k)
			if !bv.IsValid() || !semEq(a.MapIndex(k), bv, depth+1) {
				return false
			}
		}
		return true
	default:
		return false
	}
}

// Clone returns a deep copy of v (slices, pointers and interface contents are copied;
// unexported scalar fields are copied by the initial shallow assignment).
func Clone(v any) any {
	if v == nil {
		return nil
	}
	return cloneVal(reflect.ValueOf(v)).Interface()
}

func cloneVal(v reflect.Value) reflect.Value {
	switch v.Kind() {
	case reflect.Ptr:
		if v.IsNil() {
			return v
		}
		n := reflect.New(v.Type().Elem())
		n.Elem().Set(cloneVal(v.Elem()))
		return n
	case reflect.Interface:
		if v.IsNil() {
			return v
		}
		n := reflect.New(v.Type()).Elem()
		n.Set(cloneVal(v.Elem()))
		return n
	case reflect.Slice:
		if v.IsNil() {
			return v
		}
		n := reflect.MakeSlice(v.Type(), v.Len(), v.Len())
		for i := 0; i < v.Len(); i++ {
			n.Index(i).Set(cloneVal(v.Index(i)))
		}
		return n
	case reflect.Array:
		n := reflect.New(v.Type()).Elem()
		for i := 0; i < v.Len(); i++ {
			n.Index(i).Set(cloneVal(v.Index(i)))
		}
		return n
	case reflect.Struct:
		n := reflect.New(v.Type()).Elem()
		n.Set(v) // copies unexported fields too
		for i := 0; i < v.NumField(); i++ {
			f := n.Field(i)
			if !f.CanSet() {
				continue
			}
			switch f.Kind() {
			case reflect.Ptr, reflect.Interface, reflect.Slice, reflect.Array, reflect.Struct, reflect.Map:
				f.Set(cloneVal(v.Field(i)))
			}
		}
		return n
	case reflect.Map:
		if v.IsNil() {
			return v
		}
		n := reflect.MakeMapWithSize(v.Type(), v.Len())
		for _, k := range v.MapKeys() {
			n.SetMapIndex(k, cloneVal(v.MapIndex(k)))
		}
		return n
	default:
		return v
	}
}

// Dump renders a value (following pointers and interfaces) for witnesses and samples. Long
// slices are abbreviated.
func Dump(v any) string {
	var sb strings.Builder
	dumpVal(&sb, reflect.ValueOf(v), 0)
	s := sb.String()
	if len(s) > 6000 {
		s = s[:6000] + "…"
	}
	return s
}

func dumpVal(sb *strings.Builder, v reflect.Value, depth int) {
	if !v.IsValid() {
		sb.WriteString("nil")
		return
	}
	if depth > 12 {
		sb.WriteString("…")
		return
	}
	switch v.Kind() {
	case reflect.Ptr:
		if v.IsNil() {
			sb.WriteString("nil")
			return
		}
		sb.WriteString("&")
		dumpVal(sb, v.Elem(), depth+1)
	case reflect.Interface:
		if v.IsNil() {
			sb.WriteString("nil")
			return
		}
		dumpVal(sb, v.Elem(), depth+1)
	case reflect.Slice:
		if v.Type().Elem().Kind() == reflect.Uint8 && v.Type().Elem().PkgPath() == "" {
			n := v.Len()
			// nil and empty are the same value for the properties (see SemEqual)
			fmt.Fprintf(sb, "hex[%d]:", n)
			lim := n
			if lim > 96 {
				lim = 96
			}
			for i := 0; i < lim; i++ {
				fmt.Fprintf(sb, "%02x", v.Index(i).Uint())
			}
			if lim < n {
				sb.WriteString("…")
			}
			return
		}
		sb.WriteString(shortType(v.Type()) + "{")
		n := v.Len()
		lim := n
		if lim > 24 {
			lim = 24
		}
		for i := 0; i < lim; i++ {
			if i > 0 {
				sb.WriteString(", ")
			}
			dumpVal(sb, v.Index(i), depth+1)
		}
		if lim < n {
			fmt.Fprintf(sb, ", …(%d total)", n)
		}
		sb.WriteString("}")
	case reflect.Struct:
		sb.WriteString(shortType(v.Type()) + "{")
		first := true
		for i := 0; i < v.NumField(); i++ {
			name := v.Type().Field(i).Name
			if name == "_" {
				continue
			}
			if !first {
				sb.WriteString(", ")
			}
			first = false
			sb.WriteString(name + ":")
			dumpVal(sb, v.Field(i), depth+1)
		}
		sb.WriteString("}")
	case reflect.String:
		s := v.String()
		if len(s) > 80 {
			fmt.Fprintf(sb, "%q…(len %d)", s[:80], len(s))
		} else {
			fmt.Fprintf(sb, "%q", s)
		}
	case reflect.Bool:
		fmt.Fprintf(sb, "%v", v.Bool())
	case reflect.Int, reflect.Int8, reflect.Int16, reflect.Int32, reflect.Int64:
		fmt.Fprintf(sb, "%d", v.Int())
	case reflect.Uint, reflect.Uint8, reflect.Uint16, reflect.Uint32, reflect.Uint64:
		fmt.Fprintf(sb, "%d", v.Uint())
	case reflect.Float32:
		fmt.Fprintf(sb, "%g(bits %#x)", v.Float(), math.Float32bits(float32(v.Float())))
	case reflect.Float64:
		fmt.Fprintf(sb, "%g", v.Float())
	default:
		fmt.Fprintf(sb, "<%s>", v.Kind())
	}
}

func shortType(t reflect.Type) string {
	s := t.String()
	return strings.ReplaceAll(s, "rtcp.", "")
}

// TypeName returns the dynamic type name without package prefix and pointer star.
func TypeName(v any) string {
	if v == nil {
		return "nil"
	}
	t := reflect.TypeOf(v)
	for t.Kind() == reflect.Ptr {
		t = t.Elem()
	}
	return t.Name()
}

// TotalAlloc returns the cumulative bytes allocated by the process (exact: ReadMemStats
// flushes the per-P caches). Meaningful per call only in a single-goroutine worker.
func TotalAlloc() uint64 {
	var ms runtime.MemStats
	runtime.ReadMemStats(&ms)
	return ms.TotalAlloc
}

// Hex renders bytes, abbreviated beyond max octets (max <= 0: no limit).
func Hex(b []byte, max int) string {
	const digits = "0123456789abcdef"
	n := len(b)
	if max > 0 && n > max {
		n = max
	}
	out := make([]byte, 0, 2*n+16)
	for i := 0; i < n; i++ {
		out = append(out, digits[b[i]>>4], digits[b[i]&15])
	}
	if n < len(b) {
		out = append(out, []byte(fmt.Sprintf("…(+%d octets)", len(b)-n))...)
	}
	return string(out)
}

// SortedKeys returns the sorted keys of a histogram.
func SortedKeys(m map[string]uint64) []string {
	ks := make([]string, 0, len(m))
	for k := range m {
		ks = append(ks, k)
	}
	sort.Strings(ks)
	return ks
}

// DigestCap digests a value including, for every slice, the elements between len and cap:
// the part of a caller-owned backing array that a pure operation must not write to (an
// `append` to an aliased slice with spare capacity does exactly that).
func DigestCap(v any) uint64 {
	h := uint64(0xcbf29ce484222325)
	digestCapVal(reflect.ValueOf(v), &h, 0)
	return h
}

func mixIn(h *uint64, x uint64) {
	*h ^= x
	*h *= 0x100000001b3
	*h ^= *h >> 29
}

func digestCapVal(v reflect.Value, h *uint64, depth int) {
	if !v.IsValid() || depth > 64 {
		mixIn(h, 0xdead)
		return
	}
	switch v.Kind() {
	case reflect.Bool:
		if v.Bool() {
			mixIn(h, 1)
		} else {
			mixIn(h, 2)
		}
	case reflect.Int, reflect.Int8, reflect.Int16, reflect.Int32, reflect.Int64:
		mixIn(h, uint64(v.Int()))
	case reflect.Uint, reflect.Uint8, reflect.Uint16, reflect.Uint32, reflect.Uint64, reflect.Uintptr:
		mixIn(h, v.Uint())
	case reflect.Float32, reflect.Float64:
		mixIn(h, math.Float64bits(v.Float()))
	case reflect.String:
		s := v.String()
		mixIn(h, uint64(len(s)))
		for i := 0; i < len(s); i++ {
			mixIn(h, uint64(s[i]))
		}
	case reflect.Slice:
		mixIn(h, uint64(v.Len()))
		if v.IsNil() {
			return
		}
		full := v.Slice(0, v.Cap())
		if v.Type().Elem().Kind() == reflect.Uint8 {
			b := full.Bytes()
			for _, x := range b {
				mixIn(h, uint64(x))
			}
			return
		}
		for i := 0; i < full.Len(); i++ {
			digestCapVal(full.Index(i), h, depth+1)
		}
	case reflect.Array:
		for i := 0; i < v.Len(); i++ {
			digestCapVal(v.Index(i), h, depth+1)
		}
	case reflect.Ptr, reflect.Interface:
		if v.IsNil() {
			mixIn(h, 0)
			return
		}
		digestCapVal(v.Elem(), h, depth+1)
	case reflect.Struct:
		for i := 0; i < v.NumField(); i++ {
			digestCapVal(v.Field(i), h, depth+1)
		}
	default:
		mixIn(h, 0xbeef)
	}
}

// AddSlack returns a deep copy of v in which every non-nil slice has `extra` elements of
// spare capacity filled by fill (sentinels beyond len).
func AddSlack(v any, extra int, fill func() uint64) any {
	if v == nil {
		return nil
	}
	return slackVal(reflect.ValueOf(v), extra, fill).Interface()
}

func slackVal(v reflect.Value, extra int, fill func() uint64) reflect.Value {
	switch v.Kind() {
	case reflect.Ptr:
		if v.IsNil() {
			return v
		}
		n := reflect.New(v.Type().Elem())
		n.Elem().Set(slackVal(v.Elem(), extra, fill))
		return n
	case reflect.Interface:
		if v.IsNil() {
			return v
		}
		n := reflect.New(v.Type()).Elem()
		n.Set(slackVal(v.Elem(), extra, fill))
		return n
	case reflect.Slice:
		if v.IsNil() {
			return v
		}
		n := reflect.MakeSlice(v.Type(), v.Len()+extra, v.Len()+extra)
		for i := 0; i < v.Len(); i++ {
			n.Index(i).Set(slackVal(v.Index(i), extra, fill))
		}
		for i := v.Len(); i < v.Len()+extra; i++ {
			e := n.Index(i)
			switch e.Kind() {
			case reflect.Uint8, reflect.Uint16, reflect.Uint32, reflect.Uint64:
				e.SetUint(fill() & (1<<uint(e.Type().Bits()) - 1))
			}
		}
		return n.Slice(0, v.Len())
	case reflect.Array:
		n := reflect.New(v.Type()).Elem()
		for i := 0; i < v.Len(); i++ {
			n.Index(i).Set(slackVal(v.Index(i), extra, fill))
		}
		return n
	case reflect.Struct:
		n := reflect.New(v.Type()).Elem()
		n.Set(v)
		for i := 0; i < v.NumField(); i++ {
			f := n.Field(i)
			if !f.CanSet() {
				continue
			}
			switch f.Kind() {
			case reflect.Ptr, reflect.Interface, reflect.Slice, reflect.Array, reflect.Struct:
				f.Set(slackVal(v.Field(i), extra, fill))
			}
		}
		return n
	default:
		return v
	}
}

// Scribble overwrites, in place, everything a caller who owns v may legitimately write to
// without changing the shape of v: every element of every slice reachable from v (numeric
// elements are replaced by x*167+13, struct and pointer elements are scribbled recursively) and every
// numeric field behind a pointer held in a slice. Top-level fields of *v itself are left alone
// (they are the caller's own variable); strings are immutable and untouched. It returns the
// number of scalars written.
func Scribble(v any) int {
	if v == nil {
		return 0
	}
	n := 0
	scribbleVal(reflect.ValueOf(v), false, &n, 0)
	return n
}

func scribbleVal(v reflect.Value, write bool, n *int, depth int) {
	if depth > 12 {
		return
	}
	switch v.Kind() {
	case reflect.Ptr, reflect.Interface:
		if !v.IsNil() {
			scribbleVal(v.Elem(), write, n, depth+1)
		}
	case reflect.Slice:
		for i := 0; i < v.Len(); i++ {
			scribbleVal(v.Index(i), true, n, depth+1)
		}
	case reflect.Array:
		for i := 0; i < v.Len(); i++ {
			scribbleVal(v.Index(i), write, n, depth+1)
		}
	case reflect.Struct:
		for i := 0; i < v.NumField(); i++ {
			if v.Field(i).CanSet() || v.Field(i).Kind() == reflect.Ptr || v.Field(i).Kind() == reflect.Slice || v.Field(i).Kind() == reflect.Interface {
				scribbleVal(v.Field(i), write, n, depth+1)
			}
		}
	case reflect.Uint8, reflect.Uint16, reflect.Uint32, reflect.Uint64, reflect.Uint:
		if write && v.CanSet() {
			// not an involution: two results that share memory are both scribbled, and the second
			// pass must not restore what the first one wrote
			v.SetUint((v.Uint()*167 + 13) & (1<<uint(v.Type().Bits()) - 1))
			*n++
		}
	case reflect.Int8, reflect.Int16, reflect.Int32, reflect.Int64, reflect.Int:
		if write && v.CanSet() {
			v.SetInt(v.Int()*3 + 7)
			*n++
		}
	case reflect.Bool:
		if write && v.CanSet() {
			v.SetBool(!v.Bool())
			*n++
		}
	case reflect.Float32, reflect.Float64:
		if write && v.CanSet() {
			v.SetFloat(-v.Float() - 1)
			*n++
		}
	}
}

// Strings collects every string reachable from v, in traversal order. Go strings are immutable:
// whatever happens to buffers the value was decoded from, this list may never change.
func Strings(v any) []string {
	var out []string
	if v != nil {
		stringsVal(reflect.ValueOf(v), &out, 0)
	}
	return out
}

func stringsVal(v reflect.Value, out *[]string, depth int) {
	if depth > 12 {
		return
	}
	switch v.Kind() {
	case reflect.Ptr, reflect.Interface:
		if !v.IsNil() {
			stringsVal(v.Elem(), out, depth+1)
		}
	case reflect.Slice, reflect.Array:
		for i := 0; i < v.Len(); i++ {
			stringsVal(v.Index(i), out, depth+1)
		}
	case reflect.Struct:
		for i := 0; i < v.NumField(); i++ {
			stringsVal(v.Field(i), out, depth+1)
		}
	case reflect.String:
		*out = append(*out, string(append([]byte(nil), v.String()...))) // a copy: the point is to notice if the original changes
	}
}

// ScribbleSpare overwrites the spare capacity (the elements between len and cap) of every slice
// reachable from v whose elements are not octets, and returns the number of scalars written. A
// decoded list never aliases the datagram (only octet slices do), so what lies beyond its length
// belongs to nobody else: an append by the caller writes there, and nothing the caller can see
// may change when it does.
func ScribbleSpare(v any) int {
	if v == nil {
		return 0
	}
	n := 0
	scribbleSpareVal(reflect.ValueOf(v), &n, 0)
	return n
}

func scribbleSpareVal(v reflect.Value, n *int, depth int) {
	if depth > 12 {
		return
	}
	switch v.Kind() {
	case reflect.Ptr, reflect.Interface:
		if !v.IsNil() {
			scribbleSpareVal(v.Elem(), n, depth+1)
		}
	case reflect.Slice:
		for i := 0; i < v.Len(); i++ {
			scribbleSpareVal(v.Index(i), n, depth+1)
		}
		if v.Type().Elem().Kind() != reflect.Uint8 && v.Cap() > v.Len() && v.CanInterface() {
			full := v.Slice3(0, v.Cap(), v.Cap())
			for i := v.Len(); i < v.Cap(); i++ {
				e := full.Index(i)
				switch e.Kind() {
				case reflect.Ptr, reflect.Interface:
					// a pointer / interface slot in spare capacity: nothing of ours to write through
				default:
					scribbleVal(e, true, n, depth+1)
				}
			}
		}
	case reflect.Array:
		for i := 0; i < v.Len(); i++ {
			scribbleSpareVal(v.Index(i), n, depth+1)
		}
	case reflect.Struct:
		for i := 0; i < v.NumField(); i++ {
			scribbleSpareVal(v.Field(i), n, depth+1)
		}
	}
}

// SharedElems reports whether two positions of one list inside v (a decoded result) refer to
// the same object: a list of pointers or interfaces in which one non-nil pointer occurs twice.
// A decoder creates every element itself, so a repeat means that editing one element of the
// result silently edits another one. Pointers to zero-size objects are ignored (the runtime
// may give them one address). It returns a description of the first repeat found.
func SharedElems(v any) (string, bool) {
	if v == nil {
		return "", false
	}
	return sharedElemsVal(reflect.ValueOf(v), "", 0)
}

func sharedElemsVal(v reflect.Value, path string, depth int) (string, bool) {
	if depth > 12 {
		return "", false
	}
	switch v.Kind() {
	case reflect.Ptr, reflect.Interface:
		if v.IsNil() {
			return "", false
		}
		return sharedElemsVal(v.Elem(), path, depth+1)
	case reflect.Struct:
		for i := 0; i < v.NumField(); i++ {
			if v.Type().Field(i).PkgPath != "" {
				continue
			}
			if s, ok := sharedElemsVal(v.Field(i), path+"."+v.Type().Field(i).Name, depth+1); ok {
				return s, true
			}
		}
	case reflect.Slice, reflect.Array:
		ek := v.Type().Elem().Kind()
		if ek == reflect.Ptr || ek == reflect.Interface {
			seen := map[uintptr]int{}
			for i := 0; i < v.Len(); i++ {
				e := v.Index(i)
				if ek == reflect.Interface {
					if e.IsNil() {
						continue
					}
					e = e.Elem()
				}
				if e.Kind() != reflect.Ptr || e.IsNil() || e.Type().Elem().Size() == 0 {
					continue
				}
				if j, dup := seen[e.Pointer()]; dup {
					return fmt.Sprintf("%s[%d] and %s[%d] are the same %s object", path, j, path, i, e.Type().Elem()), true
				}
				seen[e.Pointer()] = i
			}
		}
		if ek == reflect.Ptr || ek == reflect.Interface || ek == reflect.Struct || ek == reflect.Slice {
			for i := 0; i < v.Len(); i++ {
				if s, ok := sharedElemsVal(v.Index(i), fmt.Sprintf("%s[%d]", path, i), depth+1); ok {
					return s, true
				}
			}
		}
	}
	return "", false
}
