// vcheck is the orchestrator and the worker of the runtime-monitoring checks.
//
//	vcheck run    -prop C05 -tier quick            parent: shards the workload over worker children
//	vcheck worker -prop C05 -tier quick -shard 3 -nshards 16 -out r.json   (internal)
//	vcheck replay <witness.json>                   re-executes exactly one recorded case
package main

import (
	"bytes"
	"encoding/binary"
	"encoding/json"
	"flag"
	"fmt"
	"os"
	"os/exec"
	"path/filepath"
	"runtime"
	"sort"
	"strconv"
	"strings"
	"sync"
	"time"

	"verifharness/internal/core"
	"verifharness/internal/props"
	"verifharness/internal/ref"
)

const verifRoot = "/verif"

// outRoot is where evidence, replays and work directories go: /verif, unless VERIF_OUT is set
// (used by the self-test driver, which runs checks against scratch copies of the library in
// parallel with normal runs and must not overwrite the registered evidence files).
var outRoot = func() string {
	if d := os.Getenv("VERIF_OUT"); d != "" {
		return d
	}
	return verifRoot
}()

func main() {
	ref.ProbeDialect()
	if len(os.Args) < 2 {
		fmt.Fprintln(os.Stderr, "usage: vcheck run|worker|replay …")
		os.Exit(2)
	}
	switch os.Args[1] {
	case "run":
		os.Exit(runParent(os.Args[2:]))
	case "worker":
		os.Exit(runWorker(os.Args[2:]))
	case "replay":
		os.Exit(runReplay(os.Args[2:]))
	case "c18fresh":
		os.Exit(props.C18FreshMain(os.Args[2:]))
	case "cold":
		os.Exit(props.ColdMain(os.Args[2:]))
	default:
		fmt.Fprintln(os.Stderr, "unknown mode", os.Args[1])
		os.Exit(2)
	}
}

func envSeed() uint64 {
	if s := os.Getenv("VERIF_SEED"); s != "" {
		if v, err := strconv.ParseUint(s, 10, 64); err == nil {
			return v
		}
		if v, err := strconv.ParseInt(s, 10, 64); err == nil {
			return uint64(v)
		}
	}
	return 1
}

// ---------------------------------------------------------------------------------------
// worker

func runWorker(args []string) int {
	fs := flag.NewFlagSet("worker", flag.ExitOnError)
	prop := fs.String("prop", "", "")
	tier := fs.String("tier", "quick", "")
	seed := fs.Uint64("seed", 1, "")
	shard := fs.Int("shard", 0, "")
	nshards := fs.Int("nshards", 1, "")
	out := fs.String("out", "", "")
	trace := fs.String("trace", "", "")
	rsec := fs.String("replay-section", "", "")
	patient := fs.Bool("patient", false, "suspicion threshold at the confirmation limit (second attempt at a shard)")
	ridx := fs.Uint64("replay-index", 0, "")
	race := fs.Bool("racepart", false, "run the RunRace workload")
	_ = fs.Parse(args)

	def := core.Lookup(*prop)
	if def == nil {
		fmt.Fprintln(os.Stderr, "unknown property", *prop)
		return 2
	}
	kf, err := core.LoadKF(filepath.Join(verifRoot, "KNOWN_FINDINGS.txt"))
	if err != nil {
		fmt.Fprintln(os.Stderr, "known findings:", err)
		return 2
	}
	c := core.NewCtx(*prop, core.Tier(*tier), *seed, *shard, *nshards, kf)
	c.Race = raceEnabled
	c.WorkDir = filepath.Dir(*out)
	if *rsec != "" {
		c.Replay = &core.ReplaySpec{Section: *rsec, Index: *ridx}
	}
	if *trace != "" {
		if err := c.EnableTrace(*trace); err != nil {
			fmt.Fprintln(os.Stderr, "trace:", err)
			return 2
		}
	}
	c.StartWatchdog(*out+".suspect", c.Replay != nil, *patient)
	start := time.Now()
	if *race {
		if def.RunRace != nil {
			def.RunRace(c)
		}
	} else {
		def.Run(c)
	}
	c.WatchdogOff(true) // the workload is over: sorting and writing the result is not a case in flight
	if err := c.Finish(start, *out+".digests"); err != nil {
		fmt.Fprintln(os.Stderr, "finish:", err)
		return 2
	}
	b, err := json.Marshal(c.Res)
	if err != nil {
		fmt.Fprintln(os.Stderr, "marshal result:", err)
		return 2
	}
	if err := os.WriteFile(*out, b, 0o644); err != nil {
		fmt.Fprintln(os.Stderr, "write result:", err)
		return 2
	}
	return 0
}

// ---------------------------------------------------------------------------------------
// parent

type shardJob struct {
	race    bool
	shard   int
	nshards int
}

type shardOutcome struct {
	job      shardJob
	res      *core.Result
	exitCode int
	stderr   string
	err      error
}

func selfPath(race bool) string {
	exe, _ := os.Executable()
	dir := filepath.Dir(exe)
	if race {
		return filepath.Join(dir, "vcheck-race")
	}
	return filepath.Join(dir, "vcheck")
}

func workerCmd(prop string, tier core.Tier, seed uint64, job shardJob, out string, extra ...string) *exec.Cmd {
	args := []string{"worker", "-prop", prop, "-tier", string(tier), "-seed", strconv.FormatUint(seed, 10),
		"-shard", strconv.Itoa(job.shard), "-nshards", strconv.Itoa(job.nshards), "-out", out}
	if job.race {
		args = append(args, "-racepart")
	}
	args = append(args, extra...)
	cmd := exec.Command(selfPath(job.race), args...)
	env := os.Environ()
	if job.race {
		env = append(env, "GORACE=halt_on_error=0 log_path="+out+".race")
	} else {
		env = append(env, "GOMAXPROCS=2")
	}
	cmd.Env = env
	return cmd
}

func runShard(prop string, tier core.Tier, seed uint64, job shardJob, workdir string, extra ...string) shardOutcome {
	tag := "p"
	if job.race {
		tag = "r"
	}
	out := filepath.Join(workdir, fmt.Sprintf("%s%02d.json", tag, job.shard))
	if len(extra) > 0 {
		out = filepath.Join(workdir, fmt.Sprintf("%s%02d-x%d.json", tag, job.shard, time.Now().UnixNano()))
	}
	cmd := workerCmd(prop, tier, seed, job, out, extra...)
	var stderr bytes.Buffer
	cmd.Stderr = &stderr
	cmd.Stdout = &stderr
	err := cmd.Run()
	oc := shardOutcome{job: job, stderr: tail(stderr.String(), 6000)}
	if err != nil {
		if ee, ok := err.(*exec.ExitError); ok {
			oc.exitCode = ee.ExitCode()
		} else {
			oc.exitCode = -1
		}
		oc.err = err
	}
	if b, rerr := os.ReadFile(out); rerr == nil {
		var r core.Result
		if jerr := json.Unmarshal(b, &r); jerr == nil {
			oc.res = &r
		} else {
			oc.err = jerr
		}
	}
	if oc.res == nil {
		if b, rerr := os.ReadFile(out + ".suspect"); rerr == nil {
			oc.stderr += "\nSUSPECT " + string(b)
		}
	}
	oc.stderr += "\x00" + out
	return oc
}

func tail(s string, n int) string {
	if len(s) > n {
		return "…" + s[len(s)-n:]
	}
	return s
}

func outPathOf(oc shardOutcome) string {
	if i := strings.LastIndex(oc.stderr, "\x00"); i >= 0 {
		return oc.stderr[i+1:]
	}
	return ""
}

func stderrOf(oc shardOutcome) string {
	if i := strings.LastIndex(oc.stderr, "\x00"); i >= 0 {
		return oc.stderr[:i]
	}
	return oc.stderr
}

func runParent(args []string) int {
	fs := flag.NewFlagSet("run", flag.ExitOnError)
	prop := fs.String("prop", "", "")
	tierS := fs.String("tier", "", "")
	nshards := fs.Int("nshards", 0, "")
	keep := fs.Bool("keep", false, "keep the work directory")
	_ = fs.Parse(args)
	tier := core.Tier(*tierS)
	if tier == "" {
		tier = core.Tier(os.Getenv("VERIF_TIER"))
	}
	if tier != core.Quick && tier != core.Thorough {
		tier = core.Quick
	}
	seed := envSeed()
	def := core.Lookup(*prop)
	if def == nil {
		fmt.Println("HARNESS-ERROR unknown property", *prop)
		return 2
	}
	start := time.Now()
	workdir := filepath.Join(outRoot, "work", fmt.Sprintf("%s-%s-%d", *prop, tier, os.Getpid()))
	_ = os.MkdirAll(workdir, 0o755)
	if !*keep {
		defer os.RemoveAll(workdir)
	}
	ncpu := runtime.NumCPU()
	if *nshards == 0 {
		*nshards = ncpu
		if *nshards > 16 {
			*nshards = 16
		}
	}

	var jobs []shardJob
	for i := 0; i < *nshards; i++ {
		jobs = append(jobs, shardJob{false, i, *nshards})
	}
	var raceJobs []shardJob
	if def.RunRace != nil {
		rs := def.RaceShards
		if rs == 0 {
			rs = 8
		}
		for i := 0; i < rs; i++ {
			raceJobs = append(raceJobs, shardJob{true, i, rs})
		}
	}

	if os.Getenv("VERIF_DEBUG_SKIP_WORKERS") == "1" {
		jobs = jobs[:1] // debugging aid for the fuzz / coverage plumbing: a single shard
	}
	outcomes := runJobs(*prop, tier, seed, jobs, workdir, *nshards)
	if len(raceJobs) > 0 {
		rp := def.RaceProcs
		if rp == 0 {
			rp = 4
		}
		outcomes = append(outcomes, runJobs(*prop, tier, seed, raceJobs, workdir, rp)...)
	}

	m := newMerge(*prop, tier, seed, def)
	for _, oc := range outcomes {
		m.add(oc, workdir)
	}
	m.collectRaceReports(outcomes)
	if def.FuzzTarget != "" && tier == core.Thorough {
		m.runNativeFuzz(workdir)
	}
	if tier == core.Thorough {
		m.runCoverage(workdir, *nshards)
	}
	code := m.finish(start, workdir)
	return code
}

func runJobs(prop string, tier core.Tier, seed uint64, jobs []shardJob, workdir string, par int) []shardOutcome {
	outs := make([]shardOutcome, len(jobs))
	sem := make(chan struct{}, par)
	var wg sync.WaitGroup
	for i, j := range jobs {
		wg.Add(1)
		go func(i int, j shardJob) {
			defer wg.Done()
			sem <- struct{}{}
			defer func() { <-sem }()
			outs[i] = runShard(prop, tier, seed, j, workdir)
		}(i, j)
	}
	wg.Wait()
	return outs
}

// ---------------------------------------------------------------------------------------
// merge

type merge struct {
	prop            string
	tier            core.Tier
	seed            uint64
	def             *core.PropDef
	evals           uint64
	distinctBC      uint64
	digestFiles     []string
	overflow        uint64
	samples         []core.Sample
	hist            map[string]uint64
	max             map[string]float64
	maxAt           map[string]string
	viol            []core.Witness
	violCount       uint64
	known           map[string]uint64
	knownEx         map[string]core.Witness
	knownAspect     map[string]uint64
	knownWit        []core.KnownWitnessResult
	exhaustive      map[string]uint64
	sections        map[string]uint64
	harnessErr      []string
	inconcl         []string
	notes           []string
	cpu             float64
	extra           map[string]uint64
	raceReports     []raceReport
	coverage        map[string]any
	confirmedStalls int
	workersOK       int
	workersAll      int
}

type raceReport struct {
	Text    string `json:"text"`
	Library bool   `json:"library_frame"`
	Key     string `json:"key"`
}

func newMerge(prop string, tier core.Tier, seed uint64, def *core.PropDef) *merge {
	return &merge{prop: prop, tier: tier, seed: seed, def: def, hist: map[string]uint64{}, max: map[string]float64{},
		maxAt: map[string]string{}, known: map[string]uint64{}, knownEx: map[string]core.Witness{},
		knownAspect: map[string]uint64{}, exhaustive: map[string]uint64{}, sections: map[string]uint64{}, extra: map[string]uint64{}}
}

func (m *merge) add(oc shardOutcome, workdir string) {
	m.workersAll++
	if oc.res == nil {
		m.handleDeadWorker(oc, workdir)
		return
	}
	m.workersOK++
	m.addResult(oc.res)
}

func (m *merge) addResult(r *core.Result) {
	m.evals += r.Evaluations
	m.distinctBC += r.DistinctByCons
	if r.DigestFile != "" {
		m.digestFiles = append(m.digestFiles, r.DigestFile)
	}
	m.overflow += r.DigestOverflow
	m.samples = append(m.samples, r.Samples...)
	for k, v := range r.Hist {
		m.hist[k] += v
	}
	for k, v := range r.Max {
		if cur, ok := m.max[k]; !ok || v > cur {
			m.max[k] = v
			m.maxAt[k] = r.MaxAt[k]
		}
	}
	m.viol = append(m.viol, r.Violations...)
	m.violCount += r.ViolationCount
	for k, v := range r.Known {
		m.known[k] += v
	}
	for k, v := range r.KnownExample {
		if _, ok := m.knownEx[k]; !ok {
			m.knownEx[k] = v
		}
	}
	for k, v := range r.KnownAspectHist {
		m.knownAspect[k] += v
	}
	m.knownWit = append(m.knownWit, r.KnownWitnesses...)
	for _, e := range r.Exhaustive {
		m.exhaustive[e.Name] = e.Size
	}
	for k, v := range r.SectionCases {
		m.sections[k] += v
	}
	m.harnessErr = append(m.harnessErr, r.HarnessErrors...)
	m.inconcl = append(m.inconcl, r.Inconclusive...)
	m.notes = append(m.notes, r.Notes...)
	m.cpu += r.CPUSeconds
	for k, v := range r.ExtraInt {
		m.extra[k] += v
	}
}

// handleDeadWorker deals with a worker that produced no result: watchdog suspicion (confirm in
// isolation), heap cap, or a Go fatal error / signal (re-run in trace mode to find the case).
func (m *merge) handleDeadWorker(oc shardOutcome, workdir string) {
	out := outPathOf(oc)
	susp, _ := os.ReadFile(out + ".suspect")
	switch oc.exitCode {
	case core.ExitSuspect, core.ExitAllocCap:
		f := strings.Fields(string(susp))
		if len(f) >= 2 && m.confirmedStalls >= 2 {
			// two suspicions were already confirmed in isolation in this run: further ones are
			// recorded, not re-confirmed (each confirmation costs 20 CPU-seconds by design)
			m.notes = append(m.notes, fmt.Sprintf("further watchdog suspicion %q not re-confirmed (two already confirmed in this run)", strings.TrimSpace(string(susp))))
			return
		}
		if len(f) >= 2 {
			idx, _ := strconv.ParseUint(f[1], 10, 64)
			r2 := runShard(m.prop, m.tier, m.seed, oc.job, workdir, "-replay-section", f[0], "-replay-index", f[1])
			switch {
			case r2.exitCode == core.ExitHang:
				m.confirmedStalls++
				m.violCount++
				m.viol = append(m.viol, core.Witness{Property: m.prop, Tier: m.tier, Seed: m.seed, Section: f[0], Index: idx,
					Aspect: "hang", Detail: core.W{"note": "one case consumed more than 20 CPU-seconds when re-run alone", "watchdog": string(susp)}, Race: oc.job.race})
			case r2.exitCode == core.ExitAllocCap:
				m.confirmedStalls++
				m.violCount++
				m.viol = append(m.viol, core.Witness{Property: m.prop, Tier: m.tier, Seed: m.seed, Section: f[0], Index: idx,
					Aspect: "alloc/heap-cap", Detail: core.W{"note": "heap above 3 GiB while this single case was in flight", "watchdog": string(susp)}, Race: oc.job.race})
			case r2.res != nil:
				m.notes = append(m.notes, fmt.Sprintf("inconclusive-noise: watchdog suspicion %q not confirmed in isolation", strings.TrimSpace(string(susp))))
				// The case is not a hang (it finished within the confirmation limit when run alone), but
				// the rest of that shard was not explored: run the shard once more with the suspicion
				// threshold at the confirmation limit.
				r3 := runShard(m.prop, m.tier, m.seed, oc.job, workdir, "-patient")
				if r3.res != nil && r3.exitCode == 0 {
					m.notes = append(m.notes, fmt.Sprintf("shard %d re-run with the 20 CPU-second threshold: completed", oc.job.shard))
					m.addResult(r3.res)
				} else {
					m.addResult(r2.res)
					m.inconcl = append(m.inconcl, fmt.Sprintf("shard %d stopped by an unconfirmed watchdog suspicion (twice)", oc.job.shard))
				}
			default:
				m.harnessErr = append(m.harnessErr, "confirmation run failed: "+stderrOf(r2))
			}
			return
		}
		m.harnessErr = append(m.harnessErr, fmt.Sprintf("worker %d exit %d without suspect file: %s", oc.job.shard, oc.exitCode, stderrOf(oc)))
	case 2:
		m.harnessErr = append(m.harnessErr, fmt.Sprintf("worker %d failed: %s", oc.job.shard, stderrOf(oc)))
	default:
		// Go fatal error / signal: find the case with a traced re-run.
		tr := filepath.Join(workdir, fmt.Sprintf("trace-%v-%d", oc.job.race, oc.job.shard))
		r2 := runShard(m.prop, m.tier, m.seed, oc.job, workdir, "-trace", tr)
		sec, idx, terr := core.ReadTrace(tr)
		if r2.res != nil {
			// did not reproduce
			m.notes = append(m.notes, fmt.Sprintf("worker %d died (exit %d) but the traced re-run completed; first stderr: %s", oc.job.shard, oc.exitCode, tail(stderrOf(oc), 1500)))
			m.addResult(r2.res)
			m.inconcl = append(m.inconcl, fmt.Sprintf("worker %d died once with exit %d and did not reproduce", oc.job.shard, oc.exitCode))
			return
		}
		if terr != nil {
			m.harnessErr = append(m.harnessErr, fmt.Sprintf("worker %d died (exit %d), no trace: %s", oc.job.shard, oc.exitCode, tail(stderrOf(oc), 1500)))
			return
		}
		m.violCount++
		m.viol = append(m.viol, core.Witness{Property: m.prop, Tier: m.tier, Seed: m.seed, Section: sec, Index: idx,
			Aspect: "fatal", Detail: core.W{"note": "worker process died (Go fatal error or signal) while this case was in flight",
				"exit": r2.exitCode, "stderr": tail(stderrOf(r2), 2500)}, Race: oc.job.race})
	}
}

// collectRaceReports scans the race-detector logs of the race workers.
func (m *merge) collectRaceReports(ocs []shardOutcome) {
	seen := map[string]bool{}
	for _, oc := range ocs {
		if !oc.job.race {
			continue
		}
		out := outPathOf(oc)
		files, _ := filepath.Glob(out + ".race*")
		for _, f := range files {
			b, err := os.ReadFile(f)
			if err != nil {
				continue
			}
			for _, blk := range strings.Split(string(b), "==================") {
				if !strings.Contains(blk, "WARNING: DATA RACE") {
					continue
				}
				m.extra["race_reports_raw"]++
				key := raceKey(blk)
				if seen[key] {
					continue
				}
				seen[key] = true
				m.raceReports = append(m.raceReports, raceReport{Text: tail(blk, 4000), Library: strings.Contains(blk, "github.com/pion/rtcp."), Key: key})
			}
		}
	}
}

// raceKey de-duplicates reports by the outermost frames in the package under test of both
// accesses, falling back to the first function lines.
func raceKey(blk string) string {
	var fns []string
	for _, l := range strings.Split(blk, "\n") {
		l = strings.TrimSpace(l)
		if strings.HasPrefix(l, "github.com/pion/rtcp.") {
			if i := strings.LastIndex(l, "("); i > 0 {
				l = l[:i] // drop the argument list, keep a "(*T)" receiver
			}
			fns = append(fns, strings.TrimPrefix(l, "github.com/pion/rtcp."))
		}
	}
	if len(fns) == 0 {
		return "harness:" + strconv.FormatUint(core.DigestStr(blk), 16)
	}
	sort.Strings(fns)
	uniq := fns[:0]
	for i, f := range fns {
		if i == 0 || f != fns[i-1] {
			uniq = append(uniq, f)
		}
	}
	return strings.Join(uniq, "|")
}

// runCoverage re-runs the quick workload (4 workers) under a -cover build of
// the harness whose counters include github.com/pion/rtcp, and reports the statement coverage
// of the package per source file, in particular for the files the property is anchored in.
// Evidence of reach only: it never produces a violation; a run that reached none of its
// anchor files is inconclusive.
func (m *merge) runCoverage(workdir string, nshards int) {
	exe, _ := os.Executable()
	cover := filepath.Join(filepath.Dir(exe), "vcheck-cover")
	if _, err := os.Stat(cover); err != nil {
		m.notes = append(m.notes, "coverage: no -cover build present, skipped")
		return
	}
	covdir := filepath.Join(workdir, "cov")
	_ = os.MkdirAll(covdir, 0o755)
	var wg sync.WaitGroup
	// the whole quick workload, split over 4 workers (a stride of 4 visits every kind: several
	// workloads pick the packet type by index modulo 16)
	for i := 0; i < 4; i++ {
		wg.Add(1)
		go func(i int) {
			defer wg.Done()
			out := filepath.Join(workdir, fmt.Sprintf("cov%02d.json", i))
			cmd := exec.Command(cover, "worker", "-prop", m.prop, "-tier", "quick", "-seed", strconv.FormatUint(m.seed, 10),
				"-shard", strconv.Itoa(i), "-nshards", "4", "-out", out)
			cmd.Env = append(os.Environ(), "GOCOVERDIR="+covdir, "GOMAXPROCS=2")
			_ = cmd.Run()
		}(i)
	}
	wg.Wait()
	txt := filepath.Join(workdir, "cov.txt")
	if out, err := exec.Command("go", "tool", "covdata", "textfmt", "-i="+covdir, "-o="+txt).CombinedOutput(); err != nil {
		m.notes = append(m.notes, "coverage: covdata failed: "+tail(string(out), 300))
		return
	}
	b, err := os.ReadFile(txt)
	if err != nil {
		return
	}
	type fc struct{ total, hit int }
	files := map[string]*fc{}
	for _, l := range strings.Split(string(b), "\n") {
		// github.com/pion/rtcp/header.go:98.46,107.42 2 1
		if !strings.HasPrefix(l, "github.com/pion/rtcp/") {
			continue
		}
		f := strings.Fields(l)
		if len(f) != 3 {
			continue
		}
		name := strings.TrimPrefix(f[0][:strings.Index(f[0], ":")], "github.com/pion/rtcp/")
		n, _ := strconv.Atoi(f[1])
		cnt, _ := strconv.Atoi(f[2])
		if files[name] == nil {
			files[name] = &fc{}
		}
		files[name].total += n
		if cnt > 0 {
			files[name].hit += n
		}
	}
	per := map[string]any{}
	tot, hit := 0, 0
	for name, c := range files {
		per[name] = map[string]any{"statements": c.total, "covered": c.hit, "percent": float64(int(1000*float64(c.hit)/float64(maxInt(c.total, 1)))) / 10}
		tot += c.total
		hit += c.hit
	}
	anchors := anchorFiles(m.prop)
	var zero []string
	withStatements, reached := 0, 0
	for _, a := range anchors {
		if c := files[a]; c != nil && c.total > 0 {
			withStatements++
			if c.hit == 0 {
				zero = append(zero, a)
			} else {
				reached++
			}
		}
	}
	m.coverage = map[string]any{"how": "the quick workload re-run (4 workers) under `go build -cover -coverpkg=github.com/pion/rtcp,...`",
		"package_statements": tot, "package_covered": hit, "package_percent": float64(int(1000*float64(hit)/float64(maxInt(tot, 1)))) / 10,
		"per_file": per, "anchor_files": anchors, "anchor_files_with_zero_coverage": zero}
	if withStatements > 0 && reached == 0 {
		m.inconcl = append(m.inconcl, "none of the anchor files was reached by this check's workload: "+strings.Join(zero, ", "))
	} else if len(zero) > 0 {
		m.notes = append(m.notes, "anchor files not reached by the coverage run of this check: "+strings.Join(zero, ", "))
	}
}

func maxInt(a, b int) int {
	if a > b {
		return a
	}
	return b
}

// anchorFiles reads the property's anchor file list from properties.jsonl.
func anchorFiles(prop string) []string {
	b, err := os.ReadFile(filepath.Join(verifRoot, "properties.jsonl"))
	if err != nil {
		return nil
	}
	for _, l := range strings.Split(string(b), "\n") {
		var p struct {
			ID      string `json:"id"`
			Anchors struct {
				Files []string `json:"files"`
			} `json:"anchors"`
		}
		if json.Unmarshal([]byte(l), &p) == nil && p.ID == prop {
			return p.Anchors.Files
		}
	}
	return nil
}

// harnessDir is the module directory (the binaries live in <harness>/bin*/).
func harnessDir() string {
	exe, _ := os.Executable()
	return filepath.Dir(filepath.Dir(exe))
}

// runNativeFuzz runs the property's coverage-guided fuzz target for a fixed number of
// executions. A failing input becomes a violation whose witness is the crasher file.
func (m *merge) runNativeFuzz(workdir string) {
	execs := m.def.FuzzExecs
	if v, err := strconv.ParseUint(os.Getenv("VERIF_FUZZ_EXECS"), 10, 64); err == nil && v > 0 {
		execs = v // debugging aid: smaller budget
	}
	args := []string{"test"}
	if mf := os.Getenv("VERIF_MODFLAG"); mf != "" {
		args = append(args, mf)
	}
	args = append(args, "./fuzz", "-run", "^$", "-fuzz", "^"+m.def.FuzzTarget+"$", "-fuzztime", fmt.Sprintf("%dx", execs),
		"-test.fuzzcachedir", filepath.Join(workdir, "fuzzcache"))
	cmd := exec.Command("go", args...)
	cmd.Dir = harnessDir()
	var out bytes.Buffer
	cmd.Stdout, cmd.Stderr = &out, &out
	t0 := time.Now()
	err := cmd.Run()
	text := out.String()
	done := uint64(0)
	interesting := uint64(0)
	for _, l := range strings.Split(text, "\n") {
		if i := strings.Index(l, "execs: "); i >= 0 {
			fmt.Sscanf(l[i:], "execs: %d", &done)
		}
		if i := strings.Index(l, "(total: "); i >= 0 {
			fmt.Sscanf(l[i:], "(total: %d)", &interesting)
		}
	}
	m.extra["native_fuzz_execs"] = done
	m.extra["native_fuzz_corpus_entries"] = interesting
	m.extra["native_fuzz_wall_ms"] = uint64(time.Since(t0).Milliseconds())
	m.evals += done
	m.notes = append(m.notes, fmt.Sprintf("native fuzz engine: target %s, %d executions requested, %d run, corpus %d entries", m.def.FuzzTarget, execs, done, interesting))
	if err == nil {
		return
	}
	// a failing input: move the crasher out of testdata so that it does not poison later runs
	crasher := ""
	if i := strings.Index(text, "Failing input written to "); i >= 0 {
		rest := text[i+len("Failing input written to "):]
		if j := strings.IndexAny(rest, "\n\r"); j >= 0 {
			rest = rest[:j]
		}
		crasher = filepath.Join(harnessDir(), "fuzz", strings.TrimSpace(rest))
	}
	if !strings.Contains(text, "VIOLATION property=") && crasher == "" {
		m.harnessErr = append(m.harnessErr, "native fuzz run failed without a failing input: "+tail(text, 1500))
		return
	}
	kept := ""
	if crasher != "" {
		if b, rerr := os.ReadFile(crasher); rerr == nil {
			dir := filepath.Join(outRoot, "replays", m.prop)
			_ = os.MkdirAll(dir, 0o755)
			kept = filepath.Join(dir, "fuzz-"+filepath.Base(crasher))
			_ = os.WriteFile(kept, b, 0o644)
			_ = os.Remove(crasher)
		}
	}
	m.violCount++
	m.viol = append(m.viol, core.Witness{Property: m.prop, Tier: m.tier, Seed: m.seed, Section: "native-fuzz", Index: 0,
		Aspect: "fuzz/" + m.def.FuzzTarget, Detail: core.W{"target": m.def.FuzzTarget, "crasher_file": kept, "output": tail(text, 3000)}})
}

func (m *merge) unionDigests() uint64 {
	var all []uint64
	for _, f := range m.digestFiles {
		b, err := os.ReadFile(f)
		if err != nil {
			continue
		}
		for i := 0; i+8 <= len(b); i += 8 {
			all = append(all, binary.LittleEndian.Uint64(b[i:]))
		}
	}
	sort.Slice(all, func(i, j int) bool { return all[i] < all[j] })
	var n uint64
	for i := range all {
		if i == 0 || all[i] != all[i-1] {
			n++
		}
	}
	return n
}

func (m *merge) finish(start time.Time, workdir string) int {
	kf, _ := core.LoadKF(filepath.Join(verifRoot, "KNOWN_FINDINGS.txt"))
	distinct := m.unionDigests() + m.distinctBC

	// race reports → violations (library frames) or harness errors (harness frames only)
	for _, rr := range m.raceReports {
		if rr.Library {
			m.violCount++
			m.viol = append(m.viol, core.Witness{Property: m.prop, Tier: m.tier, Seed: m.seed, Section: "race-detector", Index: 0,
				Aspect: "race/" + rr.Key, Detail: core.W{"report": rr.Text}, Race: true})
		} else {
			m.harnessErr = append(m.harnessErr, "race report without a frame in the package under test (harness race): "+tail(rr.Text, 1500))
		}
	}

	// known-finding lines
	stale := []string{}
	printedKF := map[string]bool{}
	for _, kw := range m.knownWit {
		if printedKF[kw.ID] {
			continue
		}
		printedKF[kw.ID] = true
		if kw.StillFails {
			fmt.Printf("KNOWN-FINDING: property=%s %s %s [witness re-executed: %s; cases attributed in this run: %d]\n", m.prop, kw.ID, kf.What(m.prop, kw.ID), kw.What, m.known[kw.ID])
		} else {
			stale = append(stale, kw.ID)
			fmt.Printf("STALE-FINDING: property=%s %s stored witness no longer fails (%s)\n", m.prop, kw.ID, kw.What)
		}
	}
	for id, n := range m.known {
		if !printedKF[id] {
			printedKF[id] = true
			fmt.Printf("KNOWN-FINDING: property=%s %s %s [cases attributed in this run: %d]\n", m.prop, id, kf.What(m.prop, id), n)
		}
	}

	// violations → replay files
	prio := func(a string) int {
		if strings.HasPrefix(a, "panic") || strings.HasPrefix(a, "fatal") || strings.HasPrefix(a, "hang") || strings.HasPrefix(a, "race") || strings.HasPrefix(a, "alloc") {
			return 0
		}
		return 1
	}
	sort.SliceStable(m.viol, func(i, j int) bool {
		if pi, pj := prio(m.viol[i].Aspect), prio(m.viol[j].Aspect); pi != pj {
			return pi < pj
		}
		return m.viol[i].Aspect < m.viol[j].Aspect
	})
	perAspect := map[string]int{}
	written := 0
	var replayPaths []string
	for _, w := range m.viol {
		if perAspect[w.Aspect] >= 2 || written >= 30 {
			continue
		}
		perAspect[w.Aspect]++
		written++
		b, _ := json.MarshalIndent(w, "", " ")
		dir := filepath.Join(outRoot, "replays", m.prop)
		_ = os.MkdirAll(dir, 0o755)
		p := filepath.Join(dir, fmt.Sprintf("%016x.json", core.Digest(b)))
		_ = os.WriteFile(p, b, 0o644)
		replayPaths = append(replayPaths, p)
		fmt.Printf("VIOLATION property=%s replay=%s\n", m.prop, p)
		fmt.Printf("  aspect=%s section=%s index=%d detail=%s\n", w.Aspect, w.Section, w.Index, tail(compactJSON(w.Detail), 600))
	}

	minDistinct := m.def.MinDistinctQuick
	if m.tier == core.Thorough {
		minDistinct = m.def.MinDistinctThorough
	}
	if minDistinct < 2 {
		minDistinct = 2
	}
	if distinct < minDistinct && m.violCount == 0 {
		m.inconcl = append(m.inconcl, fmt.Sprintf("only %d distinct non-trivial cases observed (< %d required for this tier)", distinct, minDistinct))
	}

	verdict := "held"
	code := 0
	switch {
	case m.violCount > 0:
		verdict, code = "violated", 1
	case len(m.harnessErr) > 0 || len(m.inconcl) > 0 || m.workersOK == 0:
		verdict, code = "inconclusive", 2
	}

	// evidence
	samples := m.samples
	sort.SliceStable(samples, func(i, j int) bool { return samples[i].Kind < samples[j].Kind })
	// keep at most 2 per kind, 40 in total
	var keptS []core.Sample
	perKind := map[string]int{}
	for _, s := range samples {
		if perKind[s.Kind] >= 2 || len(keptS) >= 60 {
			continue
		}
		perKind[s.Kind]++
		keptS = append(keptS, s)
	}
	if len(keptS) == 0 {
		keptS = append(keptS, core.Sample{Kind: "none", Case: "no sample recorded"})
	}
	var exh []core.ExhaustiveDomain
	for n, s := range m.exhaustive {
		exh = append(exh, core.ExhaustiveDomain{Name: n, Size: s})
	}
	sort.Slice(exh, func(i, j int) bool { return exh[i].Name < exh[j].Name })
	var kfObs []map[string]any
	for id, n := range m.known {
		kfObs = append(kfObs, map[string]any{"id": id, "cases_attributed": n, "example": m.knownEx[id]})
	}
	sort.Slice(kfObs, func(i, j int) bool { return kfObs[i]["id"].(string) < kfObs[j]["id"].(string) })
	cov := map[string]any{
		"evaluations":                          m.evals,
		"distinct_nontrivial":                  distinct,
		"rule":                                 m.def.Rule,
		"samples":                              keptS,
		"exhaustive":                           false,
		"exhaustive_domains":                   exh,
		"exhaustive_note":                      "exhaustive is false for the property as a whole (its quantifier is unbounded or sampled in part); exhaustive_domains lists the finite sub-domains this run enumerated completely at run time",
		"sections":                             m.sections,
		"histogram":                            m.hist,
		"max_observed":                         m.max,
		"max_observed_at":                      m.maxAt,
		"distinct_digest_overflow_not_counted": m.overflow,
		"known_findings_observed":              kfObs,
		"known_finding_aspects":                m.knownAspect,
		"known_finding_witnesses":              m.knownWit,
		"stale_findings":                       stale,
		"verdict":                              verdict,
		"inconclusive_reasons":                 m.inconcl,
		"harness_errors":                       m.harnessErr,
		"notes":                                m.notes,
		"workers":                              map[string]any{"started": m.workersAll, "reported": m.workersOK, "cpu_s": m.cpu},
		"extra":                                m.extra,
		"technique":                            m.def.Technique,
		"violation_replays":                    replayPaths,
	}
	if m.coverage != nil {
		cov["statement_coverage_of_pion_rtcp"] = m.coverage
	}
	if m.def.RunRace != nil {
		var rr []map[string]any
		for _, r := range m.raceReports {
			rr = append(rr, map[string]any{"key": r.Key, "library_frame": r.Library})
		}
		cov["race_detector"] = map[string]any{"reports_raw": m.extra["race_reports_raw"], "reports_distinct": len(m.raceReports), "reports": rr}
	}
	ev := map[string]any{
		"property_id": m.prop,
		"tier":        string(m.tier),
		"seed":        int64(m.seed),
		"level":       "exploration",
		"coverage":    cov,
		"assumptions": m.def.Assumptions,
		"wall_s":      time.Since(start).Seconds(),
		"violations":  int64(m.violCount),
	}
	b, _ := json.MarshalIndent(ev, "", " ")
	_ = os.MkdirAll(filepath.Join(outRoot, "evidence"), 0o755)
	if err := os.WriteFile(filepath.Join(outRoot, "evidence", m.prop+".json"), b, 0o644); err != nil {
		fmt.Println("HARNESS-ERROR cannot write evidence:", err)
		return 2
	}

	for _, e := range m.harnessErr {
		fmt.Println("HARNESS-ERROR", tail(e, 2000))
	}
	for _, e := range m.inconcl {
		fmt.Println("INCONCLUSIVE", e)
	}
	fmt.Printf("%s %s seed=%d verdict=%s evaluations=%d distinct_nontrivial=%d violations=%d known=%d wall=%.1fs cpu=%.1fs\n",
		m.prop, m.tier, m.seed, verdict, m.evals, distinct, m.violCount, sumMap(m.known), time.Since(start).Seconds(), m.cpu)
	return code
}

func sumMap(m map[string]uint64) uint64 {
	var s uint64
	for _, v := range m {
		s += v
	}
	return s
}

func compactJSON(v any) string {
	b, err := json.Marshal(v)
	if err != nil {
		return fmt.Sprint(v)
	}
	return string(b)
}

// ---------------------------------------------------------------------------------------
// replay

func runReplay(args []string) int {
	if len(args) < 1 {
		fmt.Println("usage: vcheck replay <witness.json>")
		return 2
	}
	b, err := os.ReadFile(args[0])
	if err != nil {
		fmt.Println("HARNESS-ERROR", err)
		return 2
	}
	var w core.Witness
	if err := json.Unmarshal(b, &w); err != nil {
		fmt.Println("HARNESS-ERROR", err)
		return 2
	}
	def := core.Lookup(w.Property)
	if def == nil {
		fmt.Println("HARNESS-ERROR unknown property", w.Property)
		return 2
	}
	if w.Section == "native-fuzz" {
		cf, _ := w.Detail["crasher_file"].(string)
		target, _ := w.Detail["target"].(string)
		b, rerr := os.ReadFile(cf)
		if rerr != nil || target == "" {
			fmt.Println("HARNESS-ERROR cannot read the crasher file", cf)
			return 2
		}
		dst := filepath.Join(harnessDir(), "fuzz", "testdata", "fuzz", target, "replay-"+filepath.Base(cf))
		_ = os.MkdirAll(filepath.Dir(dst), 0o755)
		_ = os.WriteFile(dst, b, 0o644)
		defer os.Remove(dst)
		targs := []string{"test"}
		if mf := os.Getenv("VERIF_MODFLAG"); mf != "" {
			targs = append(targs, mf)
		}
		targs = append(targs, "./fuzz", "-run", "^"+target+"$/replay-"+filepath.Base(cf))
		cmd := exec.Command("go", targs...)
		cmd.Dir = harnessDir()
		out, err := cmd.CombinedOutput()
		if err != nil {
			fmt.Printf("VIOLATION property=%s replay=%s\n  aspect=%s (reproduced)\n%s\n", w.Property, args[0], w.Aspect, tail(string(out), 3000))
			return 1
		}
		fmt.Println("replay of the fuzz crasher: no violation")
		return 0
	}
	if w.Section == "race-detector" {
		fmt.Println("race reports are schedule dependent: re-run the check itself (./check", w.Property, w.Tier, ") to look for it again; the stored report follows")
		fmt.Println(w.Detail["report"])
		return 1
	}
	workdir := filepath.Join(outRoot, "work", fmt.Sprintf("replay-%d", os.Getpid()))
	_ = os.MkdirAll(workdir, 0o755)
	defer os.RemoveAll(workdir)
	job := shardJob{race: w.Race, shard: 0, nshards: 1}
	// a case whose outcome depends on how goroutines happen to interleave is re-run up to 40 times:
	// one silent run of such a case says little
	attempts := 1
	if strings.HasPrefix(w.Section, "cold-start") || strings.HasPrefix(w.Section, "concurrent") {
		attempts = 40
	}
	var oc shardOutcome
	for a := 1; a <= attempts; a++ {
		oc = runShard(w.Property, w.Tier, w.Seed, job, workdir, "-replay-section", w.Section, "-replay-index", strconv.FormatUint(w.Index, 10))
		if oc.res == nil || oc.res.ViolationCount > 0 || len(oc.res.HarnessErrors) > 0 {
			break
		}
		if job.race {
			// a race report of the children is a reproduction too
			if files, _ := filepath.Glob(outPathOf(oc) + ".race*"); len(files) > 0 {
				for _, f := range files {
					if b, err := os.ReadFile(f); err == nil && strings.Contains(string(b), "WARNING: DATA RACE") {
						fmt.Printf("VIOLATION property=%s replay=%s\n  aspect=race (reproduced in attempt %d)\n%s\n", w.Property, args[0], a, tail(string(b), 3000))
						return 1
					}
				}
			}
		}
	}
	if attempts > 1 {
		fmt.Printf("(schedule-dependent case: up to %d attempts)\n", attempts)
	}
	if oc.res == nil {
		switch oc.exitCode {
		case core.ExitHang:
			fmt.Printf("VIOLATION property=%s replay=%s\n  aspect=hang (reproduced: > 20 CPU-s in one case)\n", w.Property, args[0])
			return 1
		case core.ExitAllocCap:
			fmt.Printf("VIOLATION property=%s replay=%s\n  aspect=alloc/heap-cap (reproduced)\n", w.Property, args[0])
			return 1
		case 2:
			fmt.Println("HARNESS-ERROR", stderrOf(oc))
			return 2
		default:
			fmt.Printf("VIOLATION property=%s replay=%s\n  aspect=fatal (reproduced: worker died, exit %d)\n%s\n", w.Property, args[0], oc.exitCode, tail(stderrOf(oc), 3000))
			return 1
		}
	}
	if oc.res.ViolationCount > 0 {
		for _, v := range oc.res.Violations {
			fmt.Printf("VIOLATION property=%s replay=%s\n  aspect=%s section=%s index=%d detail=%s\n", w.Property, args[0], v.Aspect, v.Section, v.Index, tail(compactJSON(v.Detail), 1500))
		}
		return 1
	}
	for id, n := range oc.res.Known {
		fmt.Printf("KNOWN-FINDING: property=%s %s (%d)\n", w.Property, id, n)
	}
	if len(oc.res.HarnessErrors) > 0 {
		fmt.Println("HARNESS-ERROR", oc.res.HarnessErrors)
		return 2
	}
	fmt.Printf("replay of %s[%d]: no violation (cases run: %d)\n", w.Section, w.Index, oc.res.SectionCases[w.Section])
	return 0
}
